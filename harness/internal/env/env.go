// Package env provides the scripted io.Reader / io.Writer of engine E3: the environment answers of every Read/Write
// call are chosen by the explorer (deviation-bounded enumeration), recorded, and replayable.
package env

import (
	"errors"
	"fmt"
	"io"
)

type AnswerKind int

const (
	Full    AnswerKind = iota // default: as many bytes as fit
	Short                     // K bytes (at least 1, at most what fits)
	Zero                      // (0, nil)
	DataEOF                   // remaining data together with io.EOF (only when it fits; else Full)
	Fail                      // K bytes (possibly 0) and a non-EOF error; every later call fails too when Sticky
)

type Answer struct {
	Kind   AnswerKind `json:"kind"`
	K      int        `json:"k,omitempty"`
	Sticky bool       `json:"sticky,omitempty"`
}

func (a Answer) String() string {
	switch a.Kind {
	case Full:
		return "full"
	case Short:
		return fmt.Sprintf("short(%d)", a.K)
	case Zero:
		return "zero"
	case DataEOF:
		return "data+eof"
	case Fail:
		return fmt.Sprintf("fail(%d,sticky=%v)", a.K, a.Sticky)
	}
	return "?"
}

var ErrInjected = errors.New("injected I/O failure")

// Script maps call index -> answer; calls not listed get Default.
type Script struct {
	At      map[int]Answer `json:"at"`
	Default Answer         `json:"default"`
}

func (s Script) answer(i int) Answer {
	if a, ok := s.At[i]; ok {
		return a
	}
	return s.Default
}

// Reader delivers Data according to Script.
type Reader struct {
	Data    []byte
	Script  Script
	Calls   int
	Sizes   []int // len(p) of every call
	pos     int
	failing bool
	// ReadsAfterEOF counts calls made after EOF/error was already returned
	ReadsAfterEnd int
	// Injected is set once a Fail answer has been given
	Injected bool
	ended    bool
}

func (r *Reader) Read(p []byte) (int, error) {
	i := r.Calls
	r.Calls++
	r.Sizes = append(r.Sizes, len(p))
	if r.ended {
		r.ReadsAfterEnd++
	}
	if r.failing {
		return 0, ErrInjected
	}
	a := r.Script.answer(i)
	remaining := len(r.Data) - r.pos
	if len(p) == 0 {
		return 0, nil
	}
	switch a.Kind {
	case Fail:
		r.Injected = true
		n := a.K
		if n > remaining {
			n = remaining
		}
		if n > len(p) {
			n = len(p)
		}
		copy(p, r.Data[r.pos:r.pos+n])
		r.pos += n
		if a.Sticky {
			r.failing = true
		}
		r.ended = true
		return n, ErrInjected
	case Zero:
		if remaining > 0 {
			return 0, nil
		}
	}
	if remaining == 0 {
		r.ended = true
		return 0, io.EOF
	}
	n := remaining
	if n > len(p) {
		n = len(p)
	}
	switch a.Kind {
	case Short:
		k := a.K
		if k < 1 {
			k = 1
		}
		if k < n {
			n = k
		}
	case DataEOF:
		if remaining <= len(p) {
			copy(p, r.Data[r.pos:])
			r.pos += remaining
			r.ended = true
			return remaining, io.EOF
		}
	}
	copy(p, r.Data[r.pos:r.pos+n])
	r.pos += n
	return n, nil
}

// Writer accepts writes according to Script (Fail answers inject write errors: K bytes accepted, then error).
type Writer struct {
	Script  Script
	Calls   int
	Buf     []byte
	failing bool
	// WritesAfterFailure counts Write calls made after a failure was reported
	WritesAfterFailure int
	failed             bool
}

// Injected reports whether a Fail answer has been given.
func (w *Writer) Injected() bool { return w.failed }

// WriteString makes the Writer an io.StringWriter too (same script, same call counter).
type StringWriter struct{ Writer }

func (w *StringWriter) WriteString(s string) (int, error) { return w.Write([]byte(s)) }

func (w *Writer) Write(p []byte) (int, error) {
	i := w.Calls
	w.Calls++
	if w.failed {
		w.WritesAfterFailure++
	}
	if w.failing {
		return 0, ErrInjected
	}
	a := w.Script.answer(i)
	if a.Kind == Fail {
		n := a.K
		if n > len(p) {
			n = len(p)
		}
		w.Buf = append(w.Buf, p[:n]...)
		if a.Sticky {
			w.failing = true
		}
		w.failed = true
		return n, ErrInjected
	}
	w.Buf = append(w.Buf, p...)
	return len(p), nil
}
