package ev

import (
	"math/big"

	"github.com/cockroachdb/apd/v2"
	compact_float "github.com/kstenerud/go-compact-float"
	compact_time "github.com/kstenerud/go-compact-time"
	"github.com/kstenerud/go-concise-encoding/ce/events"
)

// Recorder is a DataEventReceiver that copies everything it receives.
type Recorder struct {
	Events []E
}

var _ events.DataEventReceiver = (*Recorder)(nil)

func (r *Recorder) Reset()                      { r.Events = r.Events[:0] }
func (r *Recorder) add(e E)                     { r.Events = append(r.Events, e) }
func (r *Recorder) OnBeginDocument()            { r.add(E{K: BD}) }
func (r *Recorder) OnEndDocument()              { r.add(E{K: ED}) }
func (r *Recorder) OnVersion(v uint64)          { r.add(E{K: Version, U: v}) }
func (r *Recorder) OnPadding()                  { r.add(E{K: Padding}) }
func (r *Recorder) OnComment(ml bool, c []byte) { r.add(E{K: Comment, B: ml, Data: cp(c)}) }
func (r *Recorder) OnNull()                     { r.add(E{K: Null}) }
func (r *Recorder) OnBoolean(v bool)            { r.add(E{K: Boolean, B: v}) }
func (r *Recorder) OnTrue()                     { r.add(E{K: True}) }
func (r *Recorder) OnFalse()                    { r.add(E{K: False}) }
func (r *Recorder) OnPositiveInt(v uint64)      { r.add(E{K: PInt, U: v}) }
func (r *Recorder) OnNegativeInt(v uint64)      { r.add(E{K: NInt, U: v}) }
func (r *Recorder) OnInt(v int64)               { r.add(E{K: Int, I: v}) }
func (r *Recorder) OnBigInt(v *big.Int) {
	if v == nil {
		r.add(E{K: BigInt})
		return
	}
	r.add(E{K: BigInt, Big: new(big.Int).Set(v)})
}
func (r *Recorder) OnFloat(v float64) { r.add(E{K: Float, F: v}) }
func (r *Recorder) OnBigFloat(v *big.Float) {
	if v == nil {
		r.add(E{K: BigFloat})
		return
	}
	r.add(E{K: BigFloat, BF: new(big.Float).Copy(v)})
}
func (r *Recorder) OnDecimalFloat(v compact_float.DFloat) { r.add(E{K: DFloat, DF: v}) }
func (r *Recorder) OnBigDecimalFloat(v *apd.Decimal) {
	if v == nil {
		r.add(E{K: BigDecimal})
		return
	}
	r.add(E{K: BigDecimal, BDec: new(apd.Decimal).Set(v)})
}
func (r *Recorder) OnUID(v []byte)             { r.add(E{K: UID, Data: cp(v)}) }
func (r *Recorder) OnNan(s bool)               { r.add(E{K: NaN, B: s}) }
func (r *Recorder) OnTime(t compact_time.Time) { r.add(E{K: Time, T: t}) }
func (r *Recorder) OnList()                    { r.add(E{K: List}) }
func (r *Recorder) OnMap()                     { r.add(E{K: Map}) }
func (r *Recorder) OnRecordType(id []byte)     { r.add(E{K: RecordType, Data: cp(id)}) }
func (r *Recorder) OnRecord(id []byte)         { r.add(E{K: Record, Data: cp(id)}) }
func (r *Recorder) OnEdge()                    { r.add(E{K: Edge}) }
func (r *Recorder) OnNode()                    { r.add(E{K: Node}) }
func (r *Recorder) OnEndContainer()            { r.add(E{K: End}) }
func (r *Recorder) OnMarker(id []byte)         { r.add(E{K: Marker, Data: cp(id)}) }
func (r *Recorder) OnReferenceLocal(id []byte) { r.add(E{K: Ref, Data: cp(id)}) }
func (r *Recorder) OnArray(at events.ArrayType, n uint64, d []byte) {
	r.add(E{K: Array, AT: at, U: n, Data: cp(d)})
}
func (r *Recorder) OnStringlikeArray(at events.ArrayType, d string) {
	r.add(E{K: StrArray, AT: at, Data: []byte(d)})
}
func (r *Recorder) OnMedia(mt string, d []byte)       { r.add(E{K: Media, S: mt, Data: cp(d)}) }
func (r *Recorder) OnCustomBinary(t uint64, d []byte) { r.add(E{K: CustomBin, U: t, Data: cp(d)}) }
func (r *Recorder) OnCustomText(t uint64, d string)   { r.add(E{K: CustomText, U: t, Data: []byte(d)}) }
func (r *Recorder) OnArrayBegin(at events.ArrayType)  { r.add(E{K: ArrayBegin, AT: at}) }
func (r *Recorder) OnMediaBegin(mt string)            { r.add(E{K: MediaBegin, S: mt}) }
func (r *Recorder) OnCustomBegin(at events.ArrayType, t uint64) {
	r.add(E{K: CustomBegin, AT: at, U: t})
}
func (r *Recorder) OnArrayChunk(n uint64, more bool) { r.add(E{K: Chunk, U: n, B: more}) }
func (r *Recorder) OnArrayData(d []byte)             { r.add(E{K: Data, Data: cp(d)}) }
func (r *Recorder) OnError()                         { r.add(E{K: Error}) }
