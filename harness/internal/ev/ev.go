// Package ev holds the abstract event vocabulary shared by every check: a plain-data mirror of
// events.DataEventReceiver calls, a driver (abstract event -> real call) and a recorder (real call -> abstract event).
package ev

import (
	"encoding/hex"
	"encoding/json"
	"fmt"
	"math"
	"math/big"
	"strings"

	"github.com/cockroachdb/apd/v2"
	compact_float "github.com/kstenerud/go-compact-float"
	compact_time "github.com/kstenerud/go-compact-time"
	"github.com/kstenerud/go-concise-encoding/ce/events"
)

type Kind uint8

const (
	BD Kind = iota
	ED
	Version
	Padding
	Comment
	Null
	Boolean
	True
	False
	PInt
	NInt
	Int
	BigInt
	Float
	BigFloat
	DFloat
	BigDecimal
	UID
	NaN
	Time
	List
	Map
	RecordType
	Record
	Edge
	Node
	End
	Marker
	Ref
	Array       // OnArray(AT, U, Data)
	StrArray    // OnStringlikeArray(AT, string(Data))
	Media       // OnMedia(S, Data)
	CustomBin   // OnCustomBinary(U, Data)
	CustomText  // OnCustomText(U, string(Data))
	ArrayBegin  // OnArrayBegin(AT)
	MediaBegin  // OnMediaBegin(S)
	CustomBegin // OnCustomBegin(AT, U)
	Chunk       // OnArrayChunk(U, B)
	Data        // OnArrayData(Data)
	Error
	NumKinds
)

var kindNames = [...]string{"bd", "ed", "v", "pad", "com", "null", "b", "true", "false", "pint", "nint", "int", "bigint",
	"f", "bigf", "df", "bigdf", "uid", "nan", "t", "l", "m", "rt", "rec", "edge", "node", "e", "mark", "ref",
	"arr", "sarr", "media", "cb", "ct", "ab", "mb", "cbeg", "ac", "ad", "err"}

func (k Kind) String() string { return kindNames[k] }

// E is one abstract event. Only the fields relevant for K are meaningful.
type E struct {
	K    Kind
	U    uint64 // version, pint/nint magnitude, element count, custom type, chunk length
	I    int64
	B    bool // boolean value, multiline, signalling, moreChunksFollow
	AT   events.ArrayType
	S    string // media type
	Data []byte // array bytes, identifier, comment text, string contents, uid
	F    float64
	Big  *big.Int
	BF   *big.Float
	DF   compact_float.DFloat
	BDec *apd.Decimal
	T    compact_time.Time
}

// Drive performs the real call for e on r.
func Drive(r events.DataEventReceiver, e E) {
	switch e.K {
	case BD:
		r.OnBeginDocument()
	case ED:
		r.OnEndDocument()
	case Version:
		r.OnVersion(e.U)
	case Padding:
		r.OnPadding()
	case Comment:
		r.OnComment(e.B, cp(e.Data))
	case Null:
		r.OnNull()
	case Boolean:
		r.OnBoolean(e.B)
	case True:
		r.OnTrue()
	case False:
		r.OnFalse()
	case PInt:
		r.OnPositiveInt(e.U)
	case NInt:
		r.OnNegativeInt(e.U)
	case Int:
		r.OnInt(e.I)
	case BigInt:
		if e.Big == nil {
			r.OnBigInt(nil)
		} else {
			r.OnBigInt(new(big.Int).Set(e.Big))
		}
	case Float:
		r.OnFloat(e.F)
	case BigFloat:
		if e.BF == nil {
			r.OnBigFloat(nil)
		} else {
			r.OnBigFloat(new(big.Float).Copy(e.BF))
		}
	case DFloat:
		r.OnDecimalFloat(e.DF)
	case BigDecimal:
		if e.BDec == nil {
			r.OnBigDecimalFloat(nil)
		} else {
			r.OnBigDecimalFloat(new(apd.Decimal).Set(e.BDec))
		}
	case UID:
		r.OnUID(cp(e.Data))
	case NaN:
		r.OnNan(e.B)
	case Time:
		r.OnTime(e.T)
	case List:
		r.OnList()
	case Map:
		r.OnMap()
	case RecordType:
		r.OnRecordType(cp(e.Data))
	case Record:
		r.OnRecord(cp(e.Data))
	case Edge:
		r.OnEdge()
	case Node:
		r.OnNode()
	case End:
		r.OnEndContainer()
	case Marker:
		r.OnMarker(cp(e.Data))
	case Ref:
		r.OnReferenceLocal(cp(e.Data))
	case Array:
		r.OnArray(e.AT, e.U, cp(e.Data))
	case StrArray:
		r.OnStringlikeArray(e.AT, string(e.Data))
	case Media:
		r.OnMedia(e.S, cp(e.Data))
	case CustomBin:
		r.OnCustomBinary(e.U, cp(e.Data))
	case CustomText:
		r.OnCustomText(e.U, string(e.Data))
	case ArrayBegin:
		r.OnArrayBegin(e.AT)
	case MediaBegin:
		r.OnMediaBegin(e.S)
	case CustomBegin:
		r.OnCustomBegin(e.AT, e.U)
	case Chunk:
		r.OnArrayChunk(e.U, e.B)
	case Data:
		r.OnArrayData(cp(e.Data))
	case Error:
		r.OnError()
	default:
		panic(fmt.Sprintf("ev.Drive: unknown kind %d", e.K))
	}
}

// DriveWindow drives e like Drive, but every byte-slice argument is handed over as a slice of ONE reusable window buffer
// with spare capacity (what a streaming decoder does): a receiver that keeps or appends to the caller's slice shows.
func DriveWindow(r events.DataEventReceiver, e E, win []byte) {
	w := func(b []byte) []byte {
		if len(b) > len(win) {
			return cp(b)
		}
		copy(win, b)
		return win[:len(b)]
	}
	switch e.K {
	case Comment:
		r.OnComment(e.B, w(e.Data))
	case UID:
		r.OnUID(w(e.Data))
	case RecordType:
		r.OnRecordType(w(e.Data))
	case Record:
		r.OnRecord(w(e.Data))
	case Marker:
		r.OnMarker(w(e.Data))
	case Ref:
		r.OnReferenceLocal(w(e.Data))
	case Array:
		r.OnArray(e.AT, e.U, w(e.Data))
	case Media:
		r.OnMedia(e.S, w(e.Data))
	case CustomBin:
		r.OnCustomBinary(e.U, w(e.Data))
	case Data:
		r.OnArrayData(w(e.Data))
	default:
		Drive(r, e)
	}
}

// TryDriveWindow is DriveWindow with the receiver's panic converted into an error.
func TryDriveWindow(r events.DataEventReceiver, e E, win []byte) (err error) {
	defer func() {
		if x := recover(); x != nil {
			err = fmt.Errorf("%v", x)
		}
	}()
	DriveWindow(r, e, win)
	return nil
}

func cp(b []byte) []byte {
	if b == nil {
		return nil
	}
	c := make([]byte, len(b))
	copy(c, b)
	return c
}

// TryDrive drives e and converts a panic of the receiver into an error.
func TryDrive(r events.DataEventReceiver, e E) (err error) {
	defer func() {
		if x := recover(); x != nil {
			err = fmt.Errorf("%v", x)
		}
	}()
	Drive(r, e)
	return nil
}

// TryDriveAll drives events until the first rejection; returns the index of the rejected event (-1 if none).
func TryDriveAll(r events.DataEventReceiver, es []E) (idx int, err error) {
	idx = -1
	defer func() {
		if x := recover(); x != nil {
			err = fmt.Errorf("%v", x)
		}
	}()
	for i := range es {
		idx = i
		Drive(r, es[i])
	}
	idx = -1
	return
}

// String is a compact readable spelling; Key is an exact (bit-preserving) identity string.
func (e E) String() string { return e.Key() }

func (e E) Key() string {
	var sb strings.Builder
	sb.WriteString(e.K.String())
	switch e.K {
	case Version, PInt, NInt:
		fmt.Fprintf(&sb, "=%d", e.U)
	case Comment:
		fmt.Fprintf(&sb, "=%v,%q", e.B, e.Data)
	case Boolean, NaN:
		fmt.Fprintf(&sb, "=%v", e.B)
	case Int:
		fmt.Fprintf(&sb, "=%d", e.I)
	case BigInt:
		if e.Big == nil {
			sb.WriteString("=nil")
		} else {
			fmt.Fprintf(&sb, "=%s", e.Big.String())
		}
	case Float:
		fmt.Fprintf(&sb, "=%016x", math.Float64bits(e.F))
	case BigFloat:
		if e.BF == nil {
			sb.WriteString("=nil")
		} else {
			neg := ""
			if e.BF.Signbit() {
				neg = "-"
			}
			fmt.Fprintf(&sb, "=%s%s/p%d", neg, new(big.Float).Abs(e.BF).Text('p', 0), e.BF.Prec())
		}
	case DFloat:
		fmt.Fprintf(&sb, "=%de%d", e.DF.Coefficient, e.DF.Exponent)
	case BigDecimal:
		if e.BDec == nil {
			sb.WriteString("=nil")
		} else {
			fmt.Fprintf(&sb, "=f%d,n%v,%se%d", e.BDec.Form, e.BDec.Negative, e.BDec.Coeff.String(), e.BDec.Exponent)
		}
	case UID, RecordType, Record, Marker, Ref, Data:
		fmt.Fprintf(&sb, "=%s", hx(e.Data))
	case Time:
		fmt.Fprintf(&sb, "=%s", TimeKey(e.T))
	case Array:
		fmt.Fprintf(&sb, "=%v,%d,%s", e.AT, e.U, hx(e.Data))
	case StrArray:
		fmt.Fprintf(&sb, "=%v,%s", e.AT, hx(e.Data))
	case Media:
		fmt.Fprintf(&sb, "=%q,%s", e.S, hx(e.Data))
	case CustomBin, CustomText:
		fmt.Fprintf(&sb, "=%d,%s", e.U, hx(e.Data))
	case ArrayBegin:
		fmt.Fprintf(&sb, "=%v", e.AT)
	case MediaBegin:
		fmt.Fprintf(&sb, "=%q", e.S)
	case CustomBegin:
		fmt.Fprintf(&sb, "=%v,%d", e.AT, e.U)
	case Chunk:
		fmt.Fprintf(&sb, "=%d,%v", e.U, e.B)
	}
	return sb.String()
}

func hx(b []byte) string {
	printable := true
	for _, c := range b {
		if c < 0x21 || c > 0x7e || c == '"' || c == '\\' {
			printable = false
			break
		}
	}
	if printable && len(b) > 0 {
		return "'" + string(b)
	}
	return "x" + hex.EncodeToString(b)
}

func TimeKey(t compact_time.Time) string {
	z := t.Timezone
	return fmt.Sprintf("ty%d:%d-%d-%d/%d:%d:%d.%d/tz%d:%q:%q:%d:%d:%d", t.Type, t.Year, t.Month, t.Day, t.Hour, t.Minute, t.Second,
		t.Nanosecond, z.Type, z.ShortAreaLocation, z.LongAreaLocation, z.LatitudeHundredths, z.LongitudeHundredths, z.MinutesOffsetFromUTC)
}

func Keys(es []E) []string {
	out := make([]string, len(es))
	for i, e := range es {
		out[i] = e.Key()
	}
	return out
}

func Join(es []E) string { return strings.Join(Keys(es), " ") }

// ---- constructors (short names so alphabets stay readable) ----

func EBD() E                                         { return E{K: BD} }
func EED() E                                         { return E{K: ED} }
func EV(v uint64) E                                  { return E{K: Version, U: v} }
func EPad() E                                        { return E{K: Padding} }
func ECom(ml bool, s string) E                       { return E{K: Comment, B: ml, Data: []byte(s)} }
func ENull() E                                       { return E{K: Null} }
func EBool(b bool) E                                 { return E{K: Boolean, B: b} }
func ETrue() E                                       { return E{K: True} }
func EFalse() E                                      { return E{K: False} }
func EPInt(v uint64) E                               { return E{K: PInt, U: v} }
func ENInt(v uint64) E                               { return E{K: NInt, U: v} }
func EInt(v int64) E                                 { return E{K: Int, I: v} }
func EBigInt(v *big.Int) E                           { return E{K: BigInt, Big: v} }
func EFloat(v float64) E                             { return E{K: Float, F: v} }
func EBigFloat(v *big.Float) E                       { return E{K: BigFloat, BF: v} }
func EDFloat(v compact_float.DFloat) E               { return E{K: DFloat, DF: v} }
func EBigDec(v *apd.Decimal) E                       { return E{K: BigDecimal, BDec: v} }
func EUID(b []byte) E                                { return E{K: UID, Data: b} }
func ENaN(sig bool) E                                { return E{K: NaN, B: sig} }
func ETime(t compact_time.Time) E                    { return E{K: Time, T: t} }
func EList() E                                       { return E{K: List} }
func EMap() E                                        { return E{K: Map} }
func ERecType(id string) E                           { return E{K: RecordType, Data: []byte(id)} }
func ERec(id string) E                               { return E{K: Record, Data: []byte(id)} }
func EEdge() E                                       { return E{K: Edge} }
func ENode() E                                       { return E{K: Node} }
func EEnd() E                                        { return E{K: End} }
func EMarker(id string) E                            { return E{K: Marker, Data: []byte(id)} }
func ERef(id string) E                               { return E{K: Ref, Data: []byte(id)} }
func EArr(at events.ArrayType, n uint64, d []byte) E { return E{K: Array, AT: at, U: n, Data: d} }
func ESArr(at events.ArrayType, s string) E          { return E{K: StrArray, AT: at, Data: []byte(s)} }
func EStr(s string) E                                { return ESArr(events.ArrayTypeString, s) }
func EMedia(mt string, d []byte) E                   { return E{K: Media, S: mt, Data: d} }
func ECustomBin(t uint64, d []byte) E                { return E{K: CustomBin, U: t, Data: d} }
func ECustomText(t uint64, s string) E               { return E{K: CustomText, U: t, Data: []byte(s)} }
func EABegin(at events.ArrayType) E                  { return E{K: ArrayBegin, AT: at} }
func EMBegin(mt string) E                            { return E{K: MediaBegin, S: mt} }
func ECBegin(at events.ArrayType, t uint64) E        { return E{K: CustomBegin, AT: at, U: t} }
func EChunk(n uint64, more bool) E                   { return E{K: Chunk, U: n, B: more} }
func EData(d []byte) E                               { return E{K: Data, Data: d} }

// ---- JSON (replay files) ----

type jsonE struct {
	K     string
	U     uint64                `json:",omitempty"`
	I     int64                 `json:",omitempty"`
	B     bool                  `json:",omitempty"`
	AT    uint8                 `json:",omitempty"`
	S     string                `json:",omitempty"`
	Data  []byte                `json:",omitempty"`
	HasD  bool                  `json:",omitempty"`
	FBits uint64                `json:",omitempty"`
	Big   *big.Int              `json:",omitempty"`
	BF    string                `json:",omitempty"`
	BFP   uint                  `json:",omitempty"`
	DF    *compact_float.DFloat `json:",omitempty"`
	BDec  *apd.Decimal          `json:",omitempty"`
	T     *compact_time.Time    `json:",omitempty"`
	Text  string                // human-readable spelling (ignored on input)
}

func (e E) MarshalJSON() ([]byte, error) {
	j := jsonE{K: e.K.String(), U: e.U, I: e.I, B: e.B, AT: uint8(e.AT), S: e.S, Data: e.Data, HasD: e.Data != nil,
		FBits: math.Float64bits(e.F), Big: e.Big, BDec: e.BDec, Text: e.Key()}
	if e.BF != nil {
		j.BF = e.BF.Text('p', 0)
		j.BFP = e.BF.Prec()
		if e.BF.IsInf() {
			j.BF = e.BF.Text('g', 10)
		}
	}
	if e.K == DFloat {
		d := e.DF
		j.DF = &d
	}
	if e.K == Time {
		t := e.T
		j.T = &t
	}
	return json.Marshal(j)
}

func (e *E) UnmarshalJSON(b []byte) error {
	var j jsonE
	if err := json.Unmarshal(b, &j); err != nil {
		return err
	}
	k := -1
	for i, n := range kindNames {
		if n == j.K {
			k = i
		}
	}
	if k < 0 {
		return fmt.Errorf("unknown event kind %q", j.K)
	}
	*e = E{K: Kind(k), U: j.U, I: j.I, B: j.B, AT: events.ArrayType(j.AT), S: j.S, Data: j.Data, F: math.Float64frombits(j.FBits), Big: j.Big, BDec: j.BDec}
	if j.HasD && e.Data == nil {
		e.Data = []byte{}
	}
	if j.BF != "" {
		f, _, err := big.ParseFloat(j.BF, 0, j.BFP, big.ToNearestEven)
		if err != nil {
			return err
		}
		e.BF = f
	}
	if j.DF != nil {
		e.DF = *j.DF
	}
	if j.T != nil {
		e.T = *j.T
	}
	return nil
}
