// Package statekey renders the private state of an implementation object as a canonical string using reflection
// only (no unsafe, no hooks in the repository). It follows whatever fields exist, so it survives refactors; stale
// scratch fields only make the partition finer (never merges states with different futures).
package statekey

import (
	"fmt"
	"math"
	"reflect"
	"sort"
	"strings"
)

// Options: Skip lists field names that are not rendered (configuration pointers, next receivers, dropped counters).
type Options struct {
	Skip map[string]bool
	// FollowPointers renders the pointee of every pointer (depth-limited; cycles end at the depth limit)
	FollowPointers bool
}

func Of(x interface{}, opt Options) string {
	var sb strings.Builder
	render(&sb, reflect.ValueOf(x), opt, 0)
	return sb.String()
}

func render(sb *strings.Builder, v reflect.Value, opt Options, depth int) {
	if depth > 40 {
		sb.WriteString("<deep>")
		return
	}
	if !v.IsValid() {
		sb.WriteString("<invalid>")
		return
	}
	switch v.Kind() {
	case reflect.Bool:
		if v.Bool() {
			sb.WriteString("T")
		} else {
			sb.WriteString("F")
		}
	case reflect.Int, reflect.Int8, reflect.Int16, reflect.Int32, reflect.Int64:
		fmt.Fprintf(sb, "%d", v.Int())
	case reflect.Uint, reflect.Uint8, reflect.Uint16, reflect.Uint32, reflect.Uint64, reflect.Uintptr:
		fmt.Fprintf(sb, "%d", v.Uint())
	case reflect.Float32, reflect.Float64:
		fmt.Fprintf(sb, "%v", v.Float())
		if v.Float() == 0 && math.Signbit(v.Float()) {
			sb.WriteString("(-0)")
		}
	case reflect.String:
		fmt.Fprintf(sb, "%q", v.String())
	case reflect.Slice:
		if v.IsNil() {
			sb.WriteString("nil")
			return
		}
		if v.Type().Elem().Kind() == reflect.Uint8 {
			sb.WriteString("x")
			for i := 0; i < v.Len(); i++ {
				fmt.Fprintf(sb, "%02x", v.Index(i).Uint())
			}
			return
		}
		sb.WriteString("[")
		for i := 0; i < v.Len(); i++ {
			if i > 0 {
				sb.WriteString(",")
			}
			render(sb, v.Index(i), opt, depth+1)
		}
		sb.WriteString("]")
	case reflect.Array:
		sb.WriteString("A[")
		for i := 0; i < v.Len(); i++ {
			if i > 0 {
				sb.WriteString(",")
			}
			render(sb, v.Index(i), opt, depth+1)
		}
		sb.WriteString("]")
	case reflect.Map:
		if v.IsNil() {
			sb.WriteString("nilmap")
			return
		}
		items := make([]string, 0, v.Len())
		it := v.MapRange()
		for it.Next() {
			var kb, vb strings.Builder
			render(&kb, it.Key(), opt, depth+1)
			render(&vb, it.Value(), opt, depth+1)
			items = append(items, kb.String()+"=>"+vb.String())
		}
		sort.Strings(items)
		sb.WriteString("M{")
		sb.WriteString(strings.Join(items, ";"))
		sb.WriteString("}")
	case reflect.Ptr:
		if v.IsNil() {
			sb.WriteString("nilptr")
			return
		}
		sb.WriteString("&")
		sb.WriteString(v.Elem().Type().String())
		if opt.FollowPointers {
			render(sb, v.Elem(), opt, depth+1)
		} else if v.Elem().Kind() == reflect.Struct && v.Elem().NumField() > 0 {
			render(sb, v.Elem(), opt, depth+1)
		}
	case reflect.Interface:
		if v.IsNil() {
			sb.WriteString("nilif")
			return
		}
		sb.WriteString("(")
		sb.WriteString(v.Elem().Type().String())
		sb.WriteString(")")
		render(sb, v.Elem(), opt, depth+1)
	case reflect.Func:
		if v.IsNil() {
			sb.WriteString("nilfunc")
		} else {
			sb.WriteString("func")
		}
	case reflect.Struct:
		sb.WriteString("{")
		t := v.Type()
		for i := 0; i < v.NumField(); i++ {
			name := t.Field(i).Name
			if opt.Skip[name] {
				continue
			}
			sb.WriteString(name)
			sb.WriteString(":")
			render(sb, v.Field(i), opt, depth+1)
			sb.WriteString(" ")
		}
		sb.WriteString("}")
	default:
		fmt.Fprintf(sb, "<%s>", v.Kind())
	}
}
