package checks

import (
	"bytes"
	"encoding/binary"
	"encoding/json"
	"fmt"
	"math"

	"github.com/kstenerud/go-concise-encoding/ce"
	"verif/harness/internal/fx"
)

type c26Witness struct {
	Kind    string   `json:"element_kind"`
	Bits    []uint64 `json:"element_bit_patterns"`
	Variant string   `json:"build_variant"`
}

// one helper pair, expressed over raw bit patterns so that every kind goes through the same enumeration
type c26Kind struct {
	name  string
	width int // bytes
	// toBytes: build the typed slice from the bit patterns, run XSliceAsBytes
	toBytes func(bits []uint64) []byte
	// fromBytes: run BytesToXSlice and return the element bit patterns
	fromBytes func(b []byte) []uint64
}

func c26Kinds() []c26Kind {
	return []c26Kind{
		{"int8", 1, func(bits []uint64) []byte {
			s := make([]int8, len(bits))
			for i, b := range bits {
				s[i] = int8(b)
			}
			return ce.Int8SliceAsBytes(s)
		}, func(b []byte) []uint64 {
			var out []uint64
			for _, v := range ce.BytesToInt8Slice(b) {
				out = append(out, uint64(uint8(v)))
			}
			return out
		}},
		{"uint16", 2, func(bits []uint64) []byte {
			s := make([]uint16, len(bits))
			for i, b := range bits {
				s[i] = uint16(b)
			}
			return ce.Uint16SliceAsBytes(s)
		}, func(b []byte) []uint64 {
			var out []uint64
			for _, v := range ce.BytesToUint16Slice(b) {
				out = append(out, uint64(v))
			}
			return out
		}},
		{"int16", 2, func(bits []uint64) []byte {
			s := make([]int16, len(bits))
			for i, b := range bits {
				s[i] = int16(b)
			}
			return ce.Int16SliceAsBytes(s)
		}, func(b []byte) []uint64 {
			var out []uint64
			for _, v := range ce.BytesToInt16Slice(b) {
				out = append(out, uint64(uint16(v)))
			}
			return out
		}},
		{"uint32", 4, func(bits []uint64) []byte {
			s := make([]uint32, len(bits))
			for i, b := range bits {
				s[i] = uint32(b)
			}
			return ce.Uint32SliceAsBytes(s)
		}, func(b []byte) []uint64 {
			var out []uint64
			for _, v := range ce.BytesToUint32Slice(b) {
				out = append(out, uint64(v))
			}
			return out
		}},
		{"int32", 4, func(bits []uint64) []byte {
			s := make([]int32, len(bits))
			for i, b := range bits {
				s[i] = int32(b)
			}
			return ce.Int32SliceAsBytes(s)
		}, func(b []byte) []uint64 {
			var out []uint64
			for _, v := range ce.BytesToInt32Slice(b) {
				out = append(out, uint64(uint32(v)))
			}
			return out
		}},
		{"float32", 4, func(bits []uint64) []byte {
			s := make([]float32, len(bits))
			for i, b := range bits {
				s[i] = math.Float32frombits(uint32(b))
			}
			return ce.Float32SliceAsBytes(s)
		}, func(b []byte) []uint64 {
			var out []uint64
			for _, v := range ce.BytesToFloat32Slice(b) {
				out = append(out, uint64(math.Float32bits(v)))
			}
			return out
		}},
		{"uint64", 8, func(bits []uint64) []byte {
			s := make([]uint64, len(bits))
			copy(s, bits)
			return ce.Uint64SliceAsBytes(s)
		}, func(b []byte) []uint64 {
			return append([]uint64{}, ce.BytesToUint64Slice(b)...)
		}},
		{"int64", 8, func(bits []uint64) []byte {
			s := make([]int64, len(bits))
			for i, b := range bits {
				s[i] = int64(b)
			}
			return ce.Int64SliceAsBytes(s)
		}, func(b []byte) []uint64 {
			var out []uint64
			for _, v := range ce.BytesToInt64Slice(b) {
				out = append(out, uint64(v))
			}
			return out
		}},
		{"float64", 8, func(bits []uint64) []byte {
			s := make([]float64, len(bits))
			for i, b := range bits {
				s[i] = math.Float64frombits(b)
			}
			return ce.Float64SliceAsBytes(s)
		}, func(b []byte) []uint64 {
			var out []uint64
			for _, v := range ce.BytesToFloat64Slice(b) {
				out = append(out, math.Float64bits(v))
			}
			return out
		}},
	}
}

func c26Ref(width int, bits []uint64) []byte {
	out := make([]byte, 0, width*len(bits))
	var b [8]byte
	for _, v := range bits {
		binary.LittleEndian.PutUint64(b[:], v)
		out = append(out, b[:width]...)
	}
	return out
}

func c26Case(c *fx.Ctx, k c26Kind, bits []uint64, family string) {
	mask := ^uint64(0)
	if k.width < 8 {
		mask = 1<<(8*uint(k.width)) - 1
	}
	for i := range bits {
		bits[i] &= mask
	}
	c.Add("evaluations", 1)
	w := c26Witness{Kind: k.name, Bits: append([]uint64{}, bits...), Variant: c.Variant}
	sig := fmt.Sprintf("%s%s:%s", k.name, c.Variant, family)
	ref := c26Ref(k.width, bits)
	var got []byte
	if err := safeCall(func() error { got = k.toBytes(bits); return nil }); err != nil {
		c.Violation(sig+":slice-to-bytes-panics", fmt.Sprintf("%sSliceAsBytes panics on %d elements: %v", k.name, len(bits), err), w)
		return
	}
	if !bytes.Equal(got, ref) {
		c.Violation(sig+":slice-to-bytes-not-little-endian", fmt.Sprintf("%s slice with element bits %x gives bytes %x, little-endian is %x", k.name, bits, clipB(got), clipB(ref)), w)
		return
	}
	var back []uint64
	if err := safeCall(func() error { back = k.fromBytes(ref); return nil }); err != nil {
		c.Violation(sig+":bytes-to-slice-panics", fmt.Sprintf("BytesTo%sSlice panics on %d bytes: %v", k.name, len(ref), err), w)
		return
	}
	if len(back) != len(bits) {
		c.Violation(sig+":bytes-to-slice-wrong-length", fmt.Sprintf("BytesTo%sSlice of %d bytes gives %d elements, want %d", k.name, len(ref), len(back), len(bits)), w)
		return
	}
	for i := range bits {
		if back[i] != bits[i] {
			c.Violation(sig+":bytes-to-slice-element-differs", fmt.Sprintf("BytesTo%sSlice(%x) element %d has bits %x, want %x", k.name, clipB(ref), i, back[i], bits[i]), w)
			return
		}
	}
	// the source bytes must not be aliased into something that changes under the caller: mutate ref afterwards
	if len(ref) > 0 {
		ref[0] ^= 0xff
		again := k.toBytes(bits)
		ref[0] ^= 0xff
		if !bytes.Equal(again, ref) {
			c.Violation(sig+":result-not-stable", fmt.Sprintf("%sSliceAsBytes gives a different result on the second call", k.name), w)
		}
	}
}

func c26Run(c *fx.Ctx) {
	for _, k := range c26Kinds() {
		// lengths 0..9 (and nil) with walking patterns
		if c.Take() {
			for n := 0; n <= 9; n++ {
				for phase := uint64(0); phase < 8; phase++ {
					bits := make([]uint64, n)
					for i := range bits {
						bits[i] = (uint64(i)+1)*0x9E3779B97F4A7C15 + phase*0x0123456789ABCDEF
					}
					c26Case(c, k, bits, "lengths")
					if n == 3 && phase == 1 {
						c.Sample(fmt.Sprintf("%s%s slice with element bits %x <-> bytes %x", k.name, c.Variant, bits, c26Ref(k.width, bits)))
					}
					c.Distinct("nontrivial", fmt.Sprintf("%s%d%d", k.name, n, phase))
				}
			}
			c26Case(c, k, nil, "lengths")
		}
		switch k.width {
		case 1, 2:
			// every pattern at every index of a 3-element slice
			for idx := 0; idx < 3; idx++ {
				if !c.Take() {
					continue
				}
				for p := uint64(0); p < 1<<(8*uint(k.width)); p++ {
					bits := []uint64{0x1111, 0x2222, 0x3333}
					bits[idx] = p
					c26Case(c, k, bits, "all-patterns")
				}
				c.Distinct("nontrivial", fmt.Sprintf("%s-all-%d", k.name, idx))
			}
		case 4:
			stride := uint64(c.Pick(4099, 1))
			const blocks = 256
			for blk := uint64(0); blk < blocks; blk++ {
				if !c.Take() {
					continue
				}
				lo, hi := blk<<24, (blk+1)<<24
				first := lo + (stride-lo%stride)%stride
				for p := first; p < hi; p += stride {
					c26Case(c, k, []uint64{0xdeadbeef, p, 0x01020304}, "32-bit-sweep")
				}
				c.Distinct("nontrivial", fmt.Sprintf("%s-blk-%d", k.name, blk))
			}
		case 8:
			if !c.Take() {
				continue
			}
			var pats []uint64
			for a := uint(0); a < 64; a++ {
				pats = append(pats, 1<<a, ^(uint64(1) << a))
				for b := a + 1; b < 64; b++ {
					pats = append(pats, 1<<a|1<<b)
				}
			}
			pats = append(pats, 0, ^uint64(0), 0x7ff8000000000001, 0x7ff0000000000001, 0xfff8000000000000, 0x7ff00000deadbeef, 0x7ffc000000000000, 0x7ff4000000000000, 0x8000000000000000, 0x0102030405060708, 0xf1f2f3f4f5f6f7f8)
			for _, p := range pats {
				c26Case(c, k, []uint64{p, 0x1122334455667788, p}, "64-bit-patterns")
			}
			c.Distinct("nontrivial", k.name+"-64")
		}
	}
}

func init() {
	register(&fx.Check{
		ID:    "C26",
		Level: "exploration",
		Rule: "for each of the 9 helper pairs of ce/arrays.go (int8, uint16, int16, uint32, int32, float32, uint64, int64, float64), on the default build AND the purego build: lengths 0..9 and nil with walking patterns; ALL 2^8 / 2^16 patterns of 8/16-bit kinds at each index of a 3-element slice; " +
			"32-bit kinds: every 4099th pattern (quick) / all 2^32 patterns (thorough); 64-bit kinds: all single-bit, inverted single-bit and double-bit patterns plus NaN payload/sign patterns; oracle: XSliceAsBytes equals the encoding/binary little-endian rendering, BytesToXSlice returns exactly the element bit patterns (NaN payloads preserved), a second call gives the same result, no panic on empty input; distinct_nontrivial = distinct (kind, family block) units",
		Assumptions: []string{"the bytes the iterator emits for such slices and the builder consumes are checked by C05 (independent little-endian reference) and C04"},
		TrustedBase: []string{"encoding/binary.LittleEndian"},
		Variants:    []string{"", "-purego"},
		Guards:      map[string]int64{"evaluations": 1000000},
		Run:         c26Run,
		Replay: func(raw json.RawMessage) string {
			var w c26Witness
			if err := json.Unmarshal(raw, &w); err != nil {
				return err.Error()
			}
			for _, k := range c26Kinds() {
				if k.name == w.Kind {
					c := fx.NewScratchCtx()
					c26Case(c, k, w.Bits, "replay")
					return c.FirstViolation()
				}
			}
			return "unknown kind"
		},
	})
}
