//go:build sched

package checks

import (
	"github.com/kstenerud/go-concise-encoding/vsync"
	"verif/harness/internal/sched"
)

func init() {
	c17Install = func(s *sched.Scheduler) { vsync.Sched = s }
}
