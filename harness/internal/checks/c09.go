package checks

import (
	"bytes"
	"encoding/json"
	"fmt"
	"reflect"
	"strings"

	"github.com/kstenerud/go-concise-encoding/cbe"
	"github.com/kstenerud/go-concise-encoding/ce/events"
	"github.com/kstenerud/go-concise-encoding/configuration"
	"github.com/kstenerud/go-concise-encoding/cte"
	"verif/harness/internal/codec"
	"verif/harness/internal/ev"
	"verif/harness/internal/fx"
)

type c09Witness struct {
	Format   string `json:"format"`
	Doc      []byte `json:"full_document"`
	Cut      int    `json:"cut"`
	Template string `json:"template"`
	Family   string `json:"family"`
}

// partialTree builds the value tree of an event prefix, closing whatever is still open: an unfinished chunked array
// and a map key without its value are dropped, open containers are closed. nil when no value has started.
func partialTree(es []ev.E) *tnode {
	var stack []*tnode
	var root *tnode
	marked := map[string]*tnode{}
	pendingMarker := ""
	type pendingRef struct {
		parent *tnode
		idx    int
		id     string
	}
	var refs []pendingRef
	mark := func(n *tnode) {
		if pendingMarker != "" {
			marked[pendingMarker] = n
			pendingMarker = ""
		}
	}
	add := func(n *tnode) {
		if len(stack) == 0 {
			if root == nil {
				root = n
			}
			return
		}
		top := stack[len(stack)-1]
		top.children = append(top.children, n)
	}
	for i := 0; i < len(es); i++ {
		e := es[i]
		if n, ok := scalarNode(e); ok {
			mark(n)
			add(n)
			continue
		}
		switch e.K {
		case ev.Marker:
			pendingMarker = string(e.Data)
		case ev.Ref:
			if len(stack) > 0 {
				top := stack[len(stack)-1]
				refs = append(refs, pendingRef{top, len(top.children), string(e.Data)})
			}
			add(&tnode{kind: tUnresolved})
		case ev.List:
			n := &tnode{kind: tList}
			mark(n)
			stack = append(stack, n)
		case ev.Map:
			n := &tnode{kind: tMap}
			mark(n)
			stack = append(stack, n)
		case ev.End:
			if len(stack) > 0 {
				n := stack[len(stack)-1]
				stack = stack[:len(stack)-1]
				add(n)
			}
		case ev.ArrayBegin, ev.MediaBegin, ev.CustomBegin:
			var data []byte
			var elems uint64
			complete := false
			j := i + 1
			for j < len(es) && es[j].K == ev.Chunk {
				want := es[j].U
				more := es[j].B
				elems += want
				j++
				var got uint64
				for j < len(es) && es[j].K == ev.Data {
					data = append(data, es[j].Data...)
					got += uint64(len(es[j].Data))
					j++
				}
				eb := uint64(1)
				if e.K == ev.ArrayBegin {
					eb = elemBytesOf(e.AT)
				}
				if eb == 0 {
					if got < (want+7)/8 {
						break
					}
				} else if got < want*eb {
					break
				}
				if !more {
					complete = true
					break
				}
			}
			i = j - 1
			if complete {
				var n *tnode
				switch e.K {
				case ev.MediaBegin:
					n = &tnode{kind: tMedia, mt: e.S, data: data}
				case ev.CustomBegin:
					n = &tnode{kind: tCustom, ct: e.U, data: data, at: e.AT}
				default:
					n = arrayNode(e.AT, elems, data, false)
				}
				mark(n)
				add(n)
			}
			pendingMarker = ""
		}
	}
	// references: to a value that was completely decoded -> that very node (sharing and cycles are preserved); to a
	// container still open at the cut -> resolved to it or left empty; to nothing decoded -> only an empty placeholder
	openAtCut := map[*tnode]bool{}
	for _, n := range stack {
		openAtCut[n] = true
	}
	for _, r := range refs {
		if r.idx >= len(r.parent.children) {
			continue
		}
		if n, ok := marked[r.id]; ok {
			if openAtCut[n] {
				r.parent.children[r.idx] = &tnode{kind: tUnresolved, alt: n}
			} else {
				r.parent.children[r.idx] = n
			}
		}
	}
	for len(stack) > 0 {
		n := stack[len(stack)-1]
		stack = stack[:len(stack)-1]
		if n.kind == tMap && len(n.children)%2 == 1 {
			n.children = n.children[:len(n.children)-1]
		}
		add(n)
	}
	return root
}

func elemBytesOf(at events.ArrayType) uint64 {
	switch at {
	case events.ArrayTypeBit:
		return 0
	case events.ArrayTypeUint16, events.ArrayTypeInt16, events.ArrayTypeFloat16:
		return 2
	case events.ArrayTypeUint32, events.ArrayTypeInt32, events.ArrayTypeFloat32:
		return 4
	case events.ArrayTypeUint64, events.ArrayTypeInt64, events.ArrayTypeFloat64:
		return 8
	case events.ArrayTypeUID:
		return 16
	}
	return 1
}

type c09Doc struct {
	family    string
	events    []ev.E
	templates []interface{}
}

type c09S struct {
	A int
	B string
	C []int
	D map[string]int
	E float64
}
type c09Missing struct { // lacks fields the documents carry: their keys are unknown
	A int
	D map[string]int
}
type c09Extra struct {
	Z0 string
	A  int
	B  string
	C  []int
	D  map[string]int
	E  float64
	Z1 *int
}

func c09Corpus() []c09Doc {
	doc := func(es ...ev.E) []ev.E { return append(append([]ev.E{ev.EBD(), ev.EV(0)}, es...), ev.EED()) }
	long := ev.EStr("a string of more than sixteen bytes")
	var out []c09Doc
	// F1: lists of mixed scalars, with long strings/arrays early so that stale array state would show later
	mixed := []ev.E{ev.EPInt(1), long, ev.EPInt(2), ev.EStr("short"), ev.EPInt(3), ev.ENInt(70000), ev.ETrue(), ev.ENull(), ev.EFloat(1.5), ev.EPInt(1 << 40), ev.EStr("x")}
	for n := 1; n <= len(mixed); n++ {
		es := append(append([]ev.E{ev.EList()}, mixed[:n]...), ev.EEnd())
		out = append(out, c09Doc{"list-mixed", doc(es...), []interface{}{nil, []interface{}{}}})
	}
	// F2: list of ints into typed slices
	for n := 1; n <= 6; n++ {
		es := []ev.E{ev.EList()}
		for i := 0; i < n; i++ {
			es = append(es, ev.EPInt(uint64(100*i+7)))
		}
		es = append(es, ev.EEnd())
		out = append(out, c09Doc{"list-ints", doc(es...), []interface{}{nil, []interface{}{}, []int{}, []int64{}, []float64{}, []uint16{}}})
	}
	// F3: maps / structs
	lst := func(vs ...uint64) []ev.E {
		es := []ev.E{ev.EList()}
		for _, v := range vs {
			es = append(es, ev.EPInt(v))
		}
		return append(es, ev.EEnd())
	}
	fields := [][]ev.E{
		append([]ev.E{ev.EStr("a")}, ev.EPInt(42)),
		append([]ev.E{ev.EStr("b")}, long),
		append([]ev.E{ev.EStr("c")}, lst(1, 2, 3)...),
		append([]ev.E{ev.EStr("d")}, ev.EMap(), ev.EStr("x"), ev.EPInt(1), ev.EStr("y"), ev.EPInt(2), ev.EEnd()),
		append([]ev.E{ev.EStr("e")}, ev.EFloat(2.5)),
	}
	perms := [][]int{{0, 1, 2, 3, 4}, {4, 3, 2, 1, 0}, {1, 0, 4, 2, 3}, {2, 3, 0}, {3, 1}}
	for _, p := range perms {
		es := []ev.E{ev.EMap()}
		for _, i := range p {
			es = append(es, fields[i]...)
		}
		es = append(es, ev.EEnd())
		out = append(out, c09Doc{"map-struct", doc(es...), []interface{}{nil, map[string]interface{}{}, c09S{}, c09Missing{}, c09Extra{}, &c09S{}}})
	}
	// F4: nesting
	nested := append([]ev.E{ev.EList()}, lst(1, 2)...)
	nested = append(nested, lst()...)
	nested = append(nested, lst(3, 4, 5)...)
	nested = append(nested, ev.EEnd())
	out = append(out, c09Doc{"list-of-lists", doc(nested...), []interface{}{nil, [][]int{}, []interface{}{}}})
	lm := []ev.E{ev.EList(), ev.EMap(), ev.EStr("k"), ev.EPInt(1), ev.EEnd(), ev.EMap(), ev.EStr("k"), ev.EPInt(2), ev.EStr("m"), ev.EPInt(3), ev.EEnd(), ev.EEnd()}
	out = append(out, c09Doc{"list-of-maps", doc(lm...), []interface{}{nil, []map[string]int{}, []interface{}{}}})
	ml := append([]ev.E{ev.EMap(), ev.EStr("first")}, lst(1, 2, 3)...)
	ml = append(ml, ev.EStr("second"))
	ml = append(ml, lst(4, 5)...)
	ml = append(ml, ev.EStr("third"), long, ev.EEnd())
	out = append(out, c09Doc{"map-of-lists", doc(ml...), []interface{}{nil, map[string]interface{}{}}})
	// F5: typed arrays and long strings between scalars
	arr := []ev.E{ev.EList(), ev.EPInt(1), ev.EArr(events.ArrayTypeUint8, 20, bytes.Repeat([]byte{7}, 20)), ev.EPInt(2),
		ev.EArr(events.ArrayTypeUint16, 17, bytes.Repeat([]byte{1, 2}, 17)), ev.EPInt(3), long, ev.EPInt(4), ev.EArr(events.ArrayTypeUint32, 3, bytes.Repeat([]byte{9, 0, 0, 0}, 3)), ev.EStr("end"), ev.EEnd()}
	out = append(out, c09Doc{"list-arrays", doc(arr...), []interface{}{nil, []interface{}{}}})
	// F7: markers and references: backward, forward, shared containers, a cycle, in lists and maps
	mk, rf := ev.EMarker, ev.ERef
	out = append(out,
		c09Doc{"markers", doc(ev.EList(), ev.EPInt(1), mk("a"), ev.EList(), ev.EPInt(2), ev.EPInt(3), ev.EEnd(), rf("a"), ev.EPInt(4), ev.EEnd()), []interface{}{nil, []interface{}{}}},
		c09Doc{"markers", doc(ev.EList(), mk("a"), long, rf("a"), rf("a"), ev.EPInt(5), ev.EEnd()), []interface{}{nil, []interface{}{}, []string{}}},
		c09Doc{"markers", doc(ev.EList(), rf("a"), ev.EPInt(1), mk("a"), ev.EPInt(2), ev.EPInt(3), ev.EEnd()), []interface{}{nil, []interface{}{}, []int{}}},
		c09Doc{"markers", doc(ev.EMap(), ev.EStr("x"), mk("a"), ev.EList(), ev.EPInt(1), ev.EEnd(), ev.EStr("y"), rf("a"), ev.EStr("z"), mk("b"), ev.EPInt(7), ev.EStr("w"), rf("b"), ev.EEnd()), []interface{}{nil, map[string]interface{}{}}},
		c09Doc{"markers", doc(mk("a"), ev.EList(), ev.EPInt(1), rf("a"), ev.EPInt(2), ev.EEnd()), []interface{}{nil, []interface{}{}}},
		c09Doc{"markers", doc(ev.EList(), ev.EPInt(1), mk("a"), ev.EMap(), ev.EStr("k"), mk("b"), ev.EStr("v"), ev.EStr("l"), rf("b"), ev.EEnd(), rf("a"), rf("b"), ev.EEnd()), []interface{}{nil, []interface{}{}}},
	)
	// F8: chunked arrays with an empty continued chunk in the middle (valid; no marshaler writes it)
	out = append(out,
		c09Doc{"empty-continued-chunk", doc(ev.EList(), ev.EStr("first"), ev.EABegin(events.ArrayTypeString), ev.EChunk(3, true), ev.EData([]byte("abc")), ev.EChunk(0, true), ev.EChunk(2, false), ev.EData([]byte("de")), ev.EStr("last"), ev.EEnd()), []interface{}{nil, []interface{}{}, []string{}}},
		c09Doc{"empty-continued-chunk", doc(ev.EList(), ev.EPInt(1), ev.EABegin(events.ArrayTypeUint8), ev.EChunk(0, true), ev.EChunk(2, true), ev.EData([]byte{7, 8}), ev.EChunk(0, true), ev.EChunk(1, false), ev.EData([]byte{9}), ev.EPInt(2), ev.EEnd()), []interface{}{nil, []interface{}{}}},
	)
	// F6: payloads longer than the binary reader's initial buffer (127 bytes) and than two of its growth steps, as the
	// top-level value and between list elements
	seq := func(n int) []byte {
		b := make([]byte, n)
		for i := range b {
			b[i] = byte(0x35*(i+1) + 7)
		}
		return b
	}
	longStr := strings.Repeat("0123456789abcdeé", 18)
	out = append(out,
		c09Doc{"long-payload", doc(ev.EArr(events.ArrayTypeFloat64, 20, seq(160))), []interface{}{nil, []float64{}}},
		c09Doc{"long-payload", doc(ev.EArr(events.ArrayTypeUint8, 150, seq(150))), []interface{}{nil, []byte{}}},
		c09Doc{"long-payload", doc(ev.EStr(longStr)), []interface{}{nil, ""}},
		c09Doc{"long-payload", doc(ev.EList(), ev.EPInt(1), ev.EArr(events.ArrayTypeUint8, 150, seq(150)), ev.EPInt(2), ev.EArr(events.ArrayTypeUint16, 300, seq(600)), ev.EStr(longStr), ev.EPInt(3), ev.EEnd()), []interface{}{nil, []interface{}{}}},
		c09Doc{"long-payload", doc(ev.EMap(), ev.EStr("a"), ev.EPInt(1), ev.EStr("b"), ev.EStr(longStr), ev.EStr("c"), ev.EArr(events.ArrayTypeUint32, 40, seq(160)), ev.EEnd()), []interface{}{nil, struct {
			A int
			B string
			C []uint32
		}{}}},
	)
	return out
}

type c09Key struct {
	f codec.Format
	t reflect.Type
}

func c09Run(c *fx.Ctx) {
	cfg := configuration.New()
	docs := c09Corpus()
	// the reference family (forward/backward references in lists, maps, nodes, nested lists; marked ints, strings, lists,
	// maps) with the typed templates that fit each document
	// (list-shaped members only: an entry whose value is a still unresolved reference may be present or absent in a
	// partial map, and fixed-size array templates cannot hold a prefix — neither is fixed by the statement)
	for _, rd := range refFamily(c.Pick(2, 4)) {
		if !strings.HasPrefix(rd.name, "list") && !strings.HasPrefix(rd.name, "nested") {
			continue
		}
		tpls := []interface{}{nil}
		for _, t := range rd.templates {
			if t != nil && reflect.TypeOf(t).Kind() != reflect.Array {
				tpls = append(tpls, t)
			}
		}
		docs = append(docs, c09Doc{"references:" + familyClass(rd.name), rd.doc, tpls})
	}
	for _, d := range docs {
		for _, f := range []codec.Format{codec.CBE, codec.CTE} {
			if !c.Take() {
				continue
			}
			full, _, err := codec.Encode(f, d.events, nil, true)
			if err != nil {
				c.Add("corpus_not_encodable", 1)
				continue
			}
			if f == codec.CTE {
				full = bytes.TrimRight(full, "\n\r\t ")
			}
			fullEvents, err := codec.Decode(f, full, nil, true)
			if err != nil {
				c.Add("corpus_not_decodable", 1)
				continue
			}
			for _, tpl := range d.templates {
				tname := "untyped"
				if tpl != nil {
					tname = reflect.TypeOf(tpl).String()
				}
				for k := 1; k < len(full); k++ {
					c09Cut(c, cfg, f, d.family, full, fullEvents, k, tpl, tname)
				}
				c.Distinct("nontrivial", f.String()+tname+string(full))
			}
		}
	}
}

func c09Cut(c *fx.Ctx, cfg *configuration.Configuration, f codec.Format, family string, full []byte, fullEvents []ev.E, k int, tpl interface{}, tname string) {
	cut := full[:k]
	var partial interface{}
	var err error
	perr := safeCall(func() error {
		if f == codec.CBE {
			partial, err = cbe.NewUnmarshaler(cfg).UnmarshalFromDocument(cut, tpl)
		} else {
			partial, err = cte.NewUnmarshaler(cfg).UnmarshalFromDocument(cut, tpl)
		}
		return nil
	})
	c.Add("evaluations", 1)
	c.Add("cuts", 1)
	w := c09Witness{Format: f.String(), Doc: full, Cut: k, Template: tname, Family: family}
	sig := fmt.Sprintf("%s:%s:%s", f, family, tname)
	if perr != nil {
		c.Violation(sig+":panic-escapes", fmt.Sprintf("unmarshal of %s cut at %d/%d into %s: %v", showDoc(f, full), k, len(full), tname, perr), w)
		return
	}
	if err == nil {
		c.Violation(sig+":truncation-accepted", fmt.Sprintf("unmarshal of %s cut at %d/%d into %s returns no error (value %s)", showDoc(f, full), k, len(full), tname, clipS(valueKey(partial))), w)
		return
	}
	// what the builder was given: the events the real decoder+rules emit for the truncated document
	seen, _ := codec.Decode(f, cut, nil, true)
	// the text decoder recovers from the syntax error and closes the containers itself: those trailing end events are
	// artificial, and the value event before them may be a cut token delivered as a shorter value (exempt)
	core := seen
	for len(core) > 0 && (core[len(core)-1].K == ev.End || core[len(core)-1].K == ev.ED) {
		core = core[:len(core)-1]
	}
	n := len(core)
	if n > 2 {
		n--
	}
	// "nothing that was not in the document appears" at event level: a prefix of the full document's events
	for i := 0; i < n; i++ {
		if i >= len(fullEvents) || core[i].Key() != fullEvents[i].Key() {
			c.Violation(sig+":decoder-delivers-events-not-in-the-document",
				fmt.Sprintf("decoding %s cut at %d/%d delivers [%s], which is not a prefix of the full document's events [%s]", showDoc(f, full), k, len(full), clipS(ev.Join(seen)), clipS(ev.Join(fullEvents))), w)
			return
		}
	}
	exp := partialTree(seen)
	msg := c09Matches(exp, partial, tpl)
	if msg != "" {
		// without the exempt last value
		if alt := c09Matches(partialTree(core[:n]), partial, tpl); alt == "" {
			msg = ""
		}
	}
	if msg != "" {
		c.Violation(sig+":partial-result-is-not-the-decoded-prefix",
			fmt.Sprintf("unmarshal of %s cut at %d/%d into %s returns %s; the decoder delivered [%s], i.e. the prefix %s: %s", showDoc(f, full), k, len(full), tname, clipS(valueKey(partial)), clipS(ev.Join(seen)), treeStr(exp), msg), w)
		return
	}
	c.Add("partial_checked", 1)
	if k%17 == 0 {
		c.Sample(map[string]interface{}{"format": f.String(), "template": tname, "cut": k, "of": len(full), "document": showDoc(f, full), "partial": clipS(valueKey(partial))})
	}
}

func treeStr(n *tnode) string {
	if n == nil {
		return "<nothing>"
	}
	return clipS(n.String())
}

func min(a, b int) int {
	if a < b {
		return a
	}
	return b
}

func c09Matches(exp *tnode, partial interface{}, tpl interface{}) string {
	pv := reflect.ValueOf(partial)
	if exp == nil {
		// nothing was decoded: nil or the zero template
		if !pv.IsValid() || pv.IsZero() {
			return ""
		}
		if pv.Kind() == reflect.Ptr && !pv.IsNil() && pv.Elem().IsZero() {
			return ""
		}
		if (pv.Kind() == reflect.Slice || pv.Kind() == reflect.Map) && pv.Len() == 0 {
			return ""
		}
		return "nothing was decoded but the result is not empty"
	}
	m := &matcher{omitEmpty: true, lenient: true}
	return m.match(exp, pv, "$")
}

func init() {
	register(&fx.Check{
		ID:    "C09",
		Level: "fault_enumeration",
		Rule: "documents: lists of mixed scalars (1..11 elements, long strings early), lists of ints, maps with scalar/list/map values in 5 key orders, lists of lists, lists of maps, maps of lists, lists with typed arrays; each encoded as CBE and CTE and unmarshaled with a fresh unmarshaler at EVERY cut point 0<k<len, " +
			"into every fitting template (untyped, []interface{}, typed slices, map[string]interface{}, struct, struct lacking document fields, struct with extra fields, pointer to struct); oracles: (1) an error is returned; (2) the partial value equals the value tree of exactly the events the real decoder+rules delivered before the failure, " +
			"with open containers closed, an unfinished array and a key without value dropped (so every completely decoded element is present and nothing else is); (3) those events are a prefix of the full document's events; distinct_nontrivial = distinct (format, template, document)",
		Assumptions: []string{"CTE documents are cut before their trailing line feed; a scalar token cut in the middle may be delivered as a shorter scalar (the last event is accepted either way)",
			"edges, nodes, markers and records are not part of the truncation corpus (their artificial termination is unspecified)"},
		TrustedBase: []string{"harness value tree (gotree.go partialTree/matcher)", "the real decoder+rules as the source of the delivered event prefix"},
		Guards:      map[string]int64{"cuts": 10000, "partial_checked": 9000},
		Run:         c09Run,
		Replay: func(raw json.RawMessage) string {
			var w c09Witness
			if err := json.Unmarshal(raw, &w); err != nil {
				return err.Error()
			}
			f := fmtOf(w.Format)
			fe, err := codec.Decode(f, w.Doc, nil, true)
			if err != nil {
				return "full document does not decode: " + err.Error()
			}
			for _, d := range c09Corpus() {
				for _, tpl := range d.templates {
					tname := "untyped"
					if tpl != nil {
						tname = reflect.TypeOf(tpl).String()
					}
					if d.family == w.Family && tname == w.Template {
						c := fx.NewScratchCtx()
						c09Cut(c, configuration.New(), f, w.Family, w.Doc, fe, w.Cut, tpl, tname)
						return c.FirstViolation()
					}
				}
			}
			return "template not found"
		},
	})
}
