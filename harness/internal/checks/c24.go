package checks

import (
	"encoding/binary"
	"encoding/json"
	"fmt"
	"math"
	"math/big"
	"strings"

	"verif/harness/internal/codec"
	"verif/harness/internal/ev"
	"verif/harness/internal/fx"
)

type c24Witness struct {
	Doc  string `json:"document"`
	Kind string `json:"kind"`
}

// ---------- independent reference parser for numeric spellings ----------

type refNum struct {
	r       *big.Rat
	negZero bool
}

func digitVal(c byte) int {
	switch {
	case c >= '0' && c <= '9':
		return int(c - '0')
	case c >= 'a' && c <= 'f':
		return int(c-'a') + 10
	case c >= 'A' && c <= 'F':
		return int(c-'A') + 10
	}
	return 99
}

func parseDigits(s string, base int) (*big.Int, int, bool) {
	v := new(big.Int)
	n := 0
	for i := 0; i < len(s); i++ {
		if s[i] == '_' {
			continue
		}
		d := digitVal(s[i])
		if d >= base {
			return nil, 0, false
		}
		v.Mul(v, big.NewInt(int64(base)))
		v.Add(v, big.NewInt(int64(d)))
		n++
	}
	return v, n, n > 0
}

// refParseNumber: exact value of an integer / decimal float / hex float spelling (prefix optional unless forced).
func refParseNumber(s string, forcedBase int) (refNum, bool) {
	neg := false
	if strings.HasPrefix(s, "-") {
		neg = true
		s = s[1:]
	}
	base := 10
	if forcedBase != 0 {
		base = forcedBase
	} else if len(s) > 2 && s[0] == '0' {
		switch s[1] {
		case 'b', 'B':
			base, s = 2, s[2:]
		case 'o', 'O':
			base, s = 8, s[2:]
		case 'x', 'X':
			base, s = 16, s[2:]
		}
	}
	mant, exp := s, ""
	expChars := "eE"
	if base == 16 {
		expChars = "pP"
	}
	if base == 10 || base == 16 {
		if i := strings.IndexAny(s, expChars); i >= 0 {
			mant, exp = s[:i], s[i+1:]
		}
	}
	ip, fp := mant, ""
	if i := strings.IndexByte(mant, '.'); i >= 0 {
		ip, fp = mant[:i], mant[i+1:]
	}
	iv, _, ok := parseDigits(ip, base)
	if !ok {
		return refNum{}, false
	}
	r := new(big.Rat).SetInt(iv)
	if fp != "" {
		fv, n, ok := parseDigits(fp, base)
		if !ok {
			return refNum{}, false
		}
		den := new(big.Int).Exp(big.NewInt(int64(base)), big.NewInt(int64(n)), nil)
		r.Add(r, new(big.Rat).SetFrac(fv, den))
	}
	if exp != "" {
		eneg := false
		if exp[0] == '+' || exp[0] == '-' {
			eneg = exp[0] == '-'
			exp = exp[1:]
		}
		ev, _, ok := parseDigits(exp, 10)
		if !ok || !ev.IsInt64() || ev.Int64() > 100000 {
			return refNum{}, false
		}
		b := int64(10)
		if base == 16 {
			b = 2
		}
		p := new(big.Int).Exp(big.NewInt(b), ev, nil)
		if eneg {
			r.Quo(r, new(big.Rat).SetInt(p))
		} else {
			r.Mul(r, new(big.Rat).SetInt(p))
		}
	}
	if neg {
		if r.Sign() == 0 {
			return refNum{r: r, negZero: true}, true
		}
		r.Neg(r)
	}
	return refNum{r: r}, true
}

func insertUnderscores(d string) []string {
	out := []string{d}
	if len(d) >= 2 {
		out = append(out, d[:1]+"_"+d[1:], d[:len(d)-1]+"__"+d[len(d)-1:])
	}
	if len(d) >= 3 {
		out = append(out, d[:1]+"_"+d[1:2]+"_"+d[2:])
	}
	return out
}

func digitStrings(alpha string, maxLen int) []string {
	var out []string
	var rec func(cur string)
	rec = func(cur string) {
		if len(cur) > 0 {
			out = append(out, cur)
		}
		if len(cur) == maxLen {
			return
		}
		for i := 0; i < len(alpha); i++ {
			rec(cur + string(alpha[i]))
		}
	}
	rec("")
	return out
}

// c24Number: decode "c0\n<lit>" and compare the event's exact value with the reference.
func c24Number(c *fx.Ctx, lit string, kind string) {
	ref, ok := refParseNumber(lit, 0)
	if !ok {
		return
	}
	doc := "c0\n" + lit
	es, err := codec.Decode(codec.CTE, []byte(doc), nil, true)
	c.Add("evaluations", 1)
	w := c24Witness{Doc: doc, Kind: kind}
	if err != nil {
		c.Add("literals_rejected", 1) // the grammar's verdict is not judged (don't-care), only accepted literals are
		if !isSyntaxError(err) {
			c.Violation(kind+":accepted-by-grammar-but-decoding-fails", fmt.Sprintf("%q passes the lexer/parser but decoding fails: %v", lit, err), w)
		}
		return
	}
	if len(es) != 4 {
		c.Violation(kind+":not-one-value", fmt.Sprintf("%q decodes to [%s]", lit, ev.Join(es)), w)
		return
	}
	n, isScalar := scalarNode(es[2])
	if !isScalar || n.kind != tNum {
		c.Violation(kind+":not-a-number", fmt.Sprintf("%q decodes to %s", lit, es[2].Key()), w)
		return
	}
	c.Add("literals_accepted", 1)
	want := &tnode{kind: tNum, num: ref.r}
	if ref.negZero {
		want = &tnode{kind: tNum, special: "-0"}
	}
	exact := n.special == want.special && (n.special != "" || n.num.Cmp(want.num) == 0)
	if !exact {
		c.Violation(kind+":value-differs", fmt.Sprintf("%q spells %s but decodes to %s (%s)", lit, want, n, es[2].Key()), w)
		return
	}
	c.Distinct("nontrivial", lit)
	if c.Index()%7 == 0 && len(lit) > 6 {
		c.Sample(fmt.Sprintf("%q decodes to %s (reference %s)", lit, n, want))
	}
}

// isSyntaxError: the document was refused by the ANTLR lexer/parser (as opposed to the value conversion behind it).
func isSyntaxError(err error) bool {
	for _, m := range []string{"mismatched input", "no viable alternative", "token recognition error", "extraneous input", "missing "} {
		if strings.Contains(err.Error(), m) {
			return true
		}
	}
	return false
}

// ---------- typed array elements ----------

type c24ArrKind struct {
	name   string
	bits   uint
	signed bool
}

func c24IntArrayKinds() []c24ArrKind {
	return []c24ArrKind{{"i8", 8, true}, {"i16", 16, true}, {"i32", 32, true}, {"i64", 64, true}, {"u8", 8, false}, {"u16", 16, false}, {"u32", 32, false}, {"u64", 64, false}}
}

func spellInt(v *big.Int, base int, prefix bool, upper bool) string {
	s := new(big.Int).Abs(v).Text(base)
	if upper {
		s = strings.ToUpper(s)
	}
	p := ""
	if prefix {
		p = map[int]string{2: "0b", 8: "0o", 16: "0x", 10: ""}[base]
	}
	if v.Sign() < 0 {
		return "-" + p + s
	}
	return p + s
}

func c24IntElement(c *fx.Ctx, k c24ArrKind, v *big.Int, base int, arrayLevelBase bool, variant int) {
	suffix := ""
	elem := ""
	if arrayLevelBase {
		suffix = map[int]string{2: "b", 8: "o", 16: "x"}[base]
		elem = spellInt(v, base, false, variant == 1)
	} else {
		elem = spellInt(v, base, true, variant == 1)
	}
	if variant == 2 && len(elem) > 1 && elem[len(elem)-2] != '-' && elem[len(elem)-2] != 'x' && elem[len(elem)-2] != 'b' && elem[len(elem)-2] != 'o' {
		elem = elem[:len(elem)-1] + "_" + elem[len(elem)-1:]
	}
	if variant == 3 {
		// leading zeros
		if i := strings.LastIndexAny(elem, "-xXbBoO"); i >= 0 {
			elem = elem[:i+1] + "00" + elem[i+1:]
		} else {
			elem = "00" + elem
		}
	}
	if v.Sign() < 0 && !k.signed {
		return // the unsigned element grammar has no sign
	}
	doc := fmt.Sprintf("c0\n@%s%s[1 %s 0]", k.name, suffix, elem)
	min, max := new(big.Int), new(big.Int)
	if k.signed {
		max.Sub(new(big.Int).Lsh(big.NewInt(1), k.bits-1), big.NewInt(1))
		min.Neg(new(big.Int).Lsh(big.NewInt(1), k.bits-1))
	} else {
		max.Sub(new(big.Int).Lsh(big.NewInt(1), k.bits), big.NewInt(1))
	}
	fits := v.Cmp(min) >= 0 && v.Cmp(max) <= 0
	es, err := codec.Decode(codec.CTE, []byte(doc), nil, true)
	c.Add("evaluations", 1)
	c.Add("array_element_cases", 1)
	w := c24Witness{Doc: doc, Kind: "array-int"}
	sig := fmt.Sprintf("array-%s:base%d:%s", k.name, base, map[bool]string{true: "array-level-base", false: "element-prefix"}[arrayLevelBase])
	if !fits {
		if err == nil {
			c.Violation(sig+":out-of-range-element-accepted", fmt.Sprintf("%q: element %s does not fit %s but is accepted as [%s]", doc, v, k.name, clipS(ev.Join(es))), w)
		}
		return
	}
	if err != nil {
		if variant == 3 && !arrayLevelBase && base == 10 {
			return // decimal with leading zeros: judged by the top-level integer family
		}
		c.Violation(sig+":in-range-element-rejected", fmt.Sprintf("%q: element %s fits %s but the document is rejected: %v", doc, v, k.name, err), w)
		return
	}
	var data []byte
	for _, e := range es {
		if e.K == ev.Array {
			data = e.Data
		}
		if e.K == ev.Data {
			data = append(data, e.Data...)
		}
	}
	nb := int(k.bits / 8)
	if len(data) != 3*nb {
		c.Violation(sig+":wrong-element-count", fmt.Sprintf("%q decodes to %d bytes", doc, len(data)), w)
		return
	}
	var b [8]byte
	copy(b[:], data[nb:2*nb])
	got := new(big.Int).SetUint64(binary.LittleEndian.Uint64(b[:]))
	if k.signed && got.Bit(int(k.bits)-1) == 1 {
		got.Sub(got, new(big.Int).Lsh(big.NewInt(1), k.bits))
	}
	if got.Cmp(v) != 0 {
		c.Violation(sig+":element-value-differs", fmt.Sprintf("%q: element spells %s but decodes to %s", doc, v, got), w)
		return
	}
	c.Distinct("nontrivial", doc)
}

// float array elements: f32/f64 must be the correctly rounded value (one rounding) or rejected when out of range;
// f16 (bfloat16) is checked on exactly representable values only.
func c24FloatElement(c *fx.Ctx, kind string, lit string, hexArray bool) {
	base := 0
	if hexArray {
		base = 16
	}
	ref, ok := refParseNumber(lit, base)
	if !ok {
		return
	}
	suffix := ""
	if hexArray {
		suffix = "x"
	}
	doc := fmt.Sprintf("c0\n@%s%s[%s]", kind, suffix, lit)
	es, err := codec.Decode(codec.CTE, []byte(doc), nil, true)
	c.Add("evaluations", 1)
	c.Add("array_element_cases", 1)
	w := c24Witness{Doc: doc, Kind: "array-float"}
	sig := "array-" + kind + suffix
	bf := new(big.Float).SetPrec(2000).SetRat(ref.r)
	var wantBits uint64
	var width int
	inRange, exactOnly := true, false
	switch kind {
	case "f64":
		f, _ := bf.Float64()
		wantBits, width = math.Float64bits(f), 8
		inRange = !math.IsInf(f, 0)
	case "f32":
		f, _ := bf.Float32()
		wantBits, width = uint64(math.Float32bits(f)), 4
		inRange = !math.IsInf(float64(f), 0)
	default:
		f, acc := bf.Float32()
		wantBits, width = uint64(math.Float32bits(f)>>16), 2
		exactOnly = true
		if acc != big.Exact || math.Float32bits(f)&0xffff != 0 {
			return
		}
		inRange = !math.IsInf(float64(f), 0)
	}
	_ = exactOnly
	if ref.negZero {
		wantBits |= 1 << (uint(width)*8 - 1)
	}
	if !inRange {
		if err == nil {
			c.Violation(sig+":out-of-range-element-accepted", fmt.Sprintf("%q: element exceeds the range of %s but is accepted as [%s]", doc, kind, clipS(ev.Join(es))), w)
		}
		return
	}
	if err != nil {
		c.Add("literals_rejected", 1)
		underflow := ref.r.Sign() != 0 && wantBits&^(1<<(uint(width)*8-1)) == 0 // rounds to zero: rejecting it as "too small" is allowed
		if !isSyntaxError(err) && !underflow {
			c.Violation(sig+":in-range-element-rejected", fmt.Sprintf("%q: the grammar accepts the element and it is in range, but decoding fails: %v", doc, err), w)
		}
		return
	}
	var data []byte
	for _, e := range es {
		if e.K == ev.Array {
			data = e.Data
		}
		if e.K == ev.Data {
			data = append(data, e.Data...)
		}
	}
	if len(data) != width {
		c.Violation(sig+":wrong-element-count", fmt.Sprintf("%q decodes to %d bytes", doc, len(data)), w)
		return
	}
	var b [8]byte
	copy(b[:], data)
	got := binary.LittleEndian.Uint64(b[:])
	if got != wantBits {
		c.Violation(sig+":element-value-differs", fmt.Sprintf("%q: the correctly rounded element has bits %x but decodes to %x", doc, wantBits, got), w)
		return
	}
	c.Distinct("nontrivial", doc)
}

// ---------- strings ----------

type strPiece struct {
	text string // spelling inside the quotes
	want string // characters it spells; "" with dc=true when the statement leaves it open
	dc   bool
}

func c24Pieces() []strPiece {
	ps := []strPiece{
		{"a", "a", false}, {"é", "é", false}, {" ", " ", false}, {"\t", "\t", false}, {"\n", "\n", false}, {"𝄞", "𝄞", false},
		{`\r`, "\r", false}, {`\R`, "\r", false}, {`\n`, "\n", false}, {`\N`, "\n", false}, {`\t`, "\t", false}, {`\T`, "\t", false},
		{`\"`, "\"", false}, {`\*`, "*", false}, {`\/`, "/", false}, {`\\`, "\\", false}, {`\_`, "\u00a0", false}, {`\-`, "\u00ad", false},
		{`\[41]`, "A", false}, {`\[e9]`, "é", false}, {`\[E9]`, "é", false}, {`\[20ac]`, "€", false}, {`\[1d11e]`, "𝄞", false}, {`\[10ffff]`, "\U0010ffff", false}, {`\[100000]`, "\U00100000", false},
		{`\[0000041]`, "A", false}, {`\[a]`, "\n", false}, {`\[7f]`, "\x7f", true}, {`\[0]`, "\x00", true}, {`\[110000]`, "", true}, {`\[d800]`, "", true}, {`\[ffffffffff]`, "", true},
		{"\\\n   ", "", false}, {"\\\r\n\t ", "", false}, {"\\\n", "", false},
		{`\.Z a"b\c Z`, `a"b\c `, true}, {"\\.ZZ\tx\nyZZ", "x\ny", false}, {`\.# #`, "", true}, {`\.@@ some text@@`, "some text", false}, {"\\.end\nline1\nline2end", "line1\nline2", false}, {`\.Z aZb Z`, "a", true},
	}
	return ps
}

func c24String(c *fx.Ctx, pieces []strPiece, carrier string) {
	var spell, want strings.Builder
	dc := false
	afterContinuation := false
	for _, p := range pieces {
		spell.WriteString(p.text)
		w := p.want
		if afterContinuation && !strings.HasPrefix(p.text, "\\") {
			// a continuation swallows all the literal whitespace that follows it, including the next piece's
			w = strings.TrimLeft(w, " \t\r\n")
		}
		want.WriteString(w)
		dc = dc || p.dc
		afterContinuation = strings.HasPrefix(p.text, "\\\n") || strings.HasPrefix(p.text, "\\\r") || (afterContinuation && w == "" && !strings.HasPrefix(p.text, "\\"))
	}
	open := map[string]string{"string": `"`, "rid": `@"`, "custom-text": `@7"`, "remote-ref": `$"`}[carrier]
	doc := "c0\n[" + open + spell.String() + `"]`
	es, err := codec.Decode(codec.CTE, []byte(doc), nil, true)
	c.Add("evaluations", 1)
	c.Add("string_cases", 1)
	w := c24Witness{Doc: doc, Kind: "string:" + carrier}
	if dc {
		return // only "does not crash" for pieces the statement leaves open
	}
	if err != nil {
		c.Violation("string:"+carrier+":literal-rejected:"+pieceKinds(pieces), fmt.Sprintf("%q is rejected: %v", doc, err), w)
		return
	}
	var got []byte
	found := false
	for _, e := range es {
		switch e.K {
		case ev.Array, ev.StrArray, ev.CustomText:
			got, found = e.Data, true
		case ev.Data:
			got, found = append(got, e.Data...), true
		}
	}
	if !found || string(got) != want.String() {
		c.Violation("string:"+carrier+":characters-differ:"+pieceKinds(pieces), fmt.Sprintf("%q spells %q but decodes to %q", doc, want.String(), got), w)
		return
	}
	c.Distinct("nontrivial", doc)
}

func pieceKinds(ps []strPiece) string {
	set := map[string]bool{}
	var out []string
	for _, p := range ps {
		k := "plain"
		switch {
		case strings.HasPrefix(p.text, `\[`):
			k = "codepoint"
		case strings.HasPrefix(p.text, `\.`):
			k = "verbatim"
		case strings.HasPrefix(p.text, "\\\n") || strings.HasPrefix(p.text, "\\\r"):
			k = "continuation"
		case strings.HasPrefix(p.text, `\`):
			k = "named-escape"
		}
		if !set[k] {
			set[k] = true
			out = append(out, k)
		}
	}
	return strings.Join(out, "+")
}

func c24Run(c *fx.Ctx) {
	// integers: sign × prefix × all digit strings of length <= 4 over a reduced alphabet × separators
	prefixes := []struct {
		p     string
		alpha string
	}{{"", "0179"}, {"0b", "01"}, {"0B", "01"}, {"0o", "017"}, {"0O", "017"}, {"0x", "019aF"}, {"0X", "019aF"}}
	for _, pf := range prefixes {
		for _, sign := range []string{"", "-"} {
			if !c.Take() {
				continue
			}
			for _, d := range digitStrings(pf.alpha, c.Pick(3, 5)) {
				for _, du := range insertUnderscores(d) {
					c24Number(c, sign+pf.p+du, "integer:"+map[string]string{"": "decimal"}[pf.p]+strings.ToLower(pf.p))
				}
			}
			// boundary magnitudes
			for _, m := range []string{"9223372036854775807", "9223372036854775808", "18446744073709551615", "18446744073709551616", "18446744073709551617", "1" + strings.Repeat("0", 69), "123456789012345678901234567890123456789012345678901234567890123456789"} {
				v, _ := new(big.Int).SetString(m, 10)
				base := map[string]int{"": 10, "0b": 2, "0B": 2, "0o": 8, "0O": 8, "0x": 16, "0X": 16}[pf.p]
				c24Number(c, sign+pf.p+v.Text(base), "integer-boundary:"+strings.ToLower(pf.p))
				// leading zeros in front of wide literals (the int64 fast path and the big-integer path must agree on the base)
				for _, lz := range []string{"0", "00", "0_0", "000000"} {
					c24Number(c, sign+pf.p+lz+v.Text(base), "integer-boundary-leading-zeros:"+strings.ToLower(pf.p))
				}
			}
			if pf.p == "" {
				for _, m := range []string{"123456701234567012345670", "7777777777777777777777", "1000000000000000000000", "777", "12345670", "340282366920938463463374607431768211456"} {
					for _, lz := range []string{"0", "00", "0_", "000_000"} {
						c24Number(c, sign+lz+m, "integer-decimal-leading-zeros")
					}
				}
			}
		}
	}
	// decimal floats
	ints := []string{"0", "1", "9", "10", "007", "1_0", "123456789012345678", "1234567890123456789", "12345678901234567890", "9999999999999999999999999999999999999999"}
	fracs := []string{"", ".0", ".5", ".25", ".000", ".1", ".1234567890123456789", ".5_0", ".00000000000000000001"}
	exps := []string{"", "e0", "e+0", "E-0", "e1", "e-1", "E10", "e-10", "e19", "e-19", "e1_0", "e308", "e-324", "e400", "e-400", "e+0003", "e9999", "e-9999"}
	for _, ip := range ints {
		if !c.Take() {
			continue
		}
		for _, fp := range fracs {
			for _, ex := range exps {
				if fp == "" && ex == "" {
					continue
				}
				for _, sign := range []string{"", "-"} {
					c24Number(c, sign+ip+fp+ex, "decimal-float")
				}
			}
		}
	}
	// hex floats
	hints := []string{"0", "1", "f", "1F", "1fffffffffffff", "3fffffffffffff", "20000000000001", "10000000000000000000001", "00a"}
	hfracs := []string{"", ".8", ".0", ".00001", ".fffffffffffff8", ".fffffffffffffc", ".8000000000000000000001", ".a_b"}
	hexps := []string{"", "p0", "p+1", "p-1", "P10", "p1023", "p1024", "p-1022", "p-1074", "p-1075", "p+0001"}
	for _, ip := range hints {
		if !c.Take() {
			continue
		}
		for _, fp := range hfracs {
			for _, ex := range hexps {
				if fp == "" && ex == "" {
					continue
				}
				for _, sign := range []string{"", "-"} {
					for _, pfx := range []string{"0x", "0X"} {
						c24Number(c, sign+pfx+ip+fp+ex, "hex-float")
					}
				}
			}
		}
	}
	// typed integer array elements in every base, at the edges of every element type
	for _, k := range c24IntArrayKinds() {
		if !c.Take() {
			continue
		}
		var vals []*big.Int
		half := new(big.Int).Lsh(big.NewInt(1), k.bits-1)
		full := new(big.Int).Lsh(big.NewInt(1), k.bits)
		for _, d := range []int64{-2, -1, 0, 1, 2} {
			vals = append(vals, new(big.Int).Add(half, big.NewInt(d)), new(big.Int).Add(new(big.Int).Neg(half), big.NewInt(d)), new(big.Int).Add(full, big.NewInt(d)), big.NewInt(d), big.NewInt(d*37))
		}
		for _, v := range vals {
			for _, base := range []int{2, 8, 10, 16} {
				for _, arrayLevel := range []bool{false, true} {
					if arrayLevel && base == 10 {
						continue
					}
					for variant := 0; variant < 4; variant++ {
						c24IntElement(c, k, v, base, arrayLevel, variant)
					}
				}
			}
		}
	}
	// float array elements
	felems := []string{"0", "-0", "1", "-1", "1.5", "0.1", "-0.1", "1e10", "1e38", "3.4028234663852886e38", "3.4028235677973366e38", "3.5e38", "1e39", "1e-45", "1e-46", "1.7976931348623157e308", "1.8e308", "1e400", "5e-324", "2e-324",
		"1.0000000596046447753906250000001", "1.00000005960464477539062499999", "1.0000001192092896", "16777217", "16777217.0000000001", "-16777217.0000000001", "9007199254740993", "0.5", "256", "65536", "0x1.8p1", "0x1p-149", "0x1p-150", "-0x1.fffffep127", "0x1.ffffffp127", "0x1.0000010000000001p0", "0x7f.c", "-0x10", "0x1.8", "-0x1.8"}
	hexElems := []string{"0", "-0", "1", "-1", "1.8", "1.8p1", "a", "-a.8", "1p-149", "1p-150", "1.fffffep127", "1.ffffffp127", "1.0000010000000001", "1.000001", "7f.c", "-10", "1p1024", "1.fffffffffffffp1023", "1.fffffffffffff8p1023", "8000000000000000", "-8000000000000000", "10000000000000000"}
	for _, kind := range []string{"f16", "f32", "f64"} {
		if !c.Take() {
			continue
		}
		for _, e := range felems {
			c24FloatElement(c, kind, e, false)
		}
		for _, e := range hexElems {
			c24FloatElement(c, kind, e, true)
		}
	}
	// strings: every sequence of <= 2 (quick) / 3 (thorough) pieces
	pieces := c24Pieces()
	maxp := c.Pick(2, 3)
	for _, carrier := range []string{"string", "rid", "custom-text", "remote-ref"} {
		for i := range pieces {
			if !c.Take() {
				continue
			}
			c24String(c, []strPiece{pieces[i]}, carrier)
			for j := range pieces {
				c24String(c, []strPiece{pieces[i], pieces[j]}, carrier)
				if maxp >= 3 {
					for k := range pieces {
						c24String(c, []strPiece{pieces[i], pieces[j], pieces[k]}, carrier)
					}
				}
			}
		}
	}
}

func init() {
	register(&fx.Check{
		ID:    "C24",
		Level: "exploration",
		Rule: "literal spellings derived from the lexer grammar: integers = sign × 7 prefixes × every digit string of length <=3/4 over a reduced alphabet per base × underscore placements, plus boundary magnitudes (2^63-1 .. 2^64+1, 70 digits) in every base; decimal floats = 10 integer parts × 9 fractions × 18 exponents × sign; hex floats = 9 × 8 × 11 × sign × prefix case (crossing the 53-bit boundary and the float64 exponent range); " +
			"typed integer array elements of all 8 kinds at min-2..min+2, max-2..max+2, 2^bits±2 in 4 bases as element prefix and array-level base, 4 spelling variants; float array elements (decimal/hex, f16/f32/f64) incl. rounding midpoints and range edges; strings = every sequence of <=2/3 pieces over 41 pieces (plain, 12 named escapes, 14 code point escapes, continuations, verbatim sequences) in 4 carriers; " +
			"oracle: an independent reference parser giving exact rationals / characters; an accepted literal must decode to exactly the reference value (negative zero preserved), integer elements accepted iff they fit, float elements correctly rounded once or rejected when out of range; distinct_nontrivial = distinct accepted literals",
		Assumptions: []string{"whether a spelling is accepted at all is the grammar's verdict and is not judged (except array elements, which must be rejected exactly when they do not fit)",
			"code points above U+10FFFF, surrogates, NUL/DEL escapes and verbatim contents containing their own sentinel are don't-cares", "bfloat16 elements are checked on exactly representable values only"},
		TrustedBase: []string{"reference parser in c24.go (math/big)"},
		Guards:      map[string]int64{"literals_accepted": 3000, "array_element_cases": 2000, "string_cases": 3000},
		Run:         c24Run,
		Replay: func(raw json.RawMessage) string {
			var w c24Witness
			if err := json.Unmarshal(raw, &w); err != nil {
				return err.Error()
			}
			if strings.HasPrefix(w.Kind, "string") || strings.HasPrefix(w.Kind, "array") {
				_, err := codec.Decode(codec.CTE, []byte(w.Doc), nil, true)
				return fmt.Sprintf("replay by re-running the check family; decoding now gives err=%v", err)
			}
			c := fx.NewScratchCtx()
			c24Number(c, strings.TrimPrefix(w.Doc, "c0\n"), w.Kind)
			return c.FirstViolation()
		},
	})
}
