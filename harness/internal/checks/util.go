package checks

import "unicode/utf8"

func validUTF8(b []byte) bool { return utf8.Valid(b) }
