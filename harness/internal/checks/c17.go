package checks

import (
	"crypto/sha1"
	"encoding/json"
	"fmt"
	"math/big"
	"net/url"
	"os"
	"path/filepath"
	"reflect"
	"runtime"
	"strings"
	"sync"
	"time"

	"github.com/kstenerud/go-concise-encoding/builder"
	"github.com/kstenerud/go-concise-encoding/ce"
	"github.com/kstenerud/go-concise-encoding/configuration"
	"github.com/kstenerud/go-concise-encoding/iterator"
	"github.com/kstenerud/go-concise-encoding/rules"
	"github.com/kstenerud/go-concise-encoding/types"
	"verif/harness/internal/codec"
	"verif/harness/internal/ev"
	"verif/harness/internal/fx"
	"verif/harness/internal/gen"
	"verif/harness/internal/sched"
)

// c17Install installs the scheduler into the vsync shim; only the scheduler build (tag sched) sets it.
var c17Install func(s *sched.Scheduler)

type c17Witness struct {
	Harness  string   `json:"harness"`
	Schedule []int    `json:"schedule_choices"`
	Log      []string `json:"operations_in_order"`
	Results  []string `json:"thread_results"`
	Alone    []string `json:"results_when_run_alone"`
}

// ---- types used by the harnesses (first use of a NEW type is what races on the shared caches) ----
type c17Inner struct {
	P int
	Q []int32
}
type c17T struct {
	A int
	B string
	C []string
	D *c17Inner
	E map[string]c17Inner
}
type c17RT struct {
	V int
	U *c17RU
}
type c17RU struct {
	W string
	T *c17RT
	I c17Inner
}
type c17Bad struct {
	A int
	C chan int
}
type c17BadSelf struct { // refers to itself before the field that cannot be handled
	Next *c17BadSelf
	C    chan int
}
type c17HoldsBad struct {
	X int
	B *c17Bad
}

type c17Harness struct {
	name string
	// mk returns fresh shared state + one body per thread
	mk func() []func() string
}

func iterBody(sess *iterator.Session, v interface{}) func() string {
	return func() string {
		rec := &ev.Recorder{}
		err := safeCall(func() error { sess.NewIterator(rec).Iterate(v); return nil })
		return obs(ev.Join(rec.Events), err)
	}
}

func buildBody(sess *builder.Session, tpl interface{}, doc []ev.E) func() string {
	return func() string {
		var out string
		err := safeCall(func() error {
			b := sess.NewBuilderFor(tpl)
			if _, e := ev.TryDriveAll(b, doc); e != nil {
				return e
			}
			out = valueKey(b.GetBuiltObject())
			return nil
		})
		return obs(out, err)
	}
}

func c17Harnesses() []c17Harness {
	cfg := func() *configuration.Configuration {
		c := configuration.New()
		c.Iterator.RecursionSupport = true
		return c
	}
	tv := c17T{A: 1, B: "b", C: []string{"x"}, D: &c17Inner{2, []int32{3}}, E: map[string]c17Inner{"k": {4, nil}}}
	rt := &c17RT{V: 1, U: &c17RU{W: "w", I: c17Inner{5, nil}}}
	ru := &c17RU{W: "x", T: &c17RT{V: 2}}
	hdr := func(es ...ev.E) []ev.E { return append(append([]ev.E{ev.EBD(), ev.EV(0)}, es...), ev.EED()) }
	// keys are spelled neither exactly like the fields nor in normalised form (the lookup normalises them)
	tDoc := hdr(ev.EMap(), ev.EStr("_A"), ev.EPInt(1), ev.EStr("D_"), ev.EMap(), ev.EStr("P__"), ev.EPInt(2), ev.EEnd(), ev.EStr("C_"), ev.EList(), ev.EStr("x"), ev.EEnd(), ev.EEnd())
	rtDoc := hdr(ev.EMap(), ev.EStr("v"), ev.EPInt(1), ev.EStr("u"), ev.EMap(), ev.EStr("w"), ev.EStr("w"), ev.EEnd(), ev.EEnd())
	ruDoc := hdr(ev.EMap(), ev.EStr("w"), ev.EStr("x"), ev.EStr("t"), ev.EMap(), ev.EStr("v"), ev.EPInt(2), ev.EEnd(), ev.EEnd())
	badDoc := hdr(ev.EMap(), ev.EStr("a"), ev.EPInt(1), ev.EEnd())
	return []c17Harness{
		{"H1-iterator-same-new-type", func() []func() string {
			s := iterator.NewSession(nil, cfg())
			return []func() string{iterBody(s, tv), iterBody(s, tv)}
		}},
		{"H1i-iterator-new-type-behind-interface", func() []func() string {
			s := iterator.NewSession(nil, cfg())
			return []func() string{iterBody(s, []interface{}{tv, 1}), iterBody(s, map[string]interface{}{"k": &tv})}
		}},
		{"H2-iterator-mutually-recursive-types", func() []func() string {
			s := iterator.NewSession(nil, cfg())
			return []func() string{iterBody(s, rt), iterBody(s, ru)}
		}},
		{"H3-iterator-unsupported-type", func() []func() string {
			s := iterator.NewSession(nil, cfg())
			return []func() string{iterBody(s, c17Bad{A: 1}), iterBody(s, c17HoldsBad{X: 1, B: &c17Bad{A: 2}}), iterBody(s, c17Bad{A: 3})}
		}},
		{"H4-builder-same-new-type", func() []func() string {
			s := builder.NewSession(nil, cfg())
			return []func() string{buildBody(s, c17T{}, tDoc), buildBody(s, c17T{}, tDoc)}
		}},
		{"H5-builder-mutually-recursive-types", func() []func() string {
			s := builder.NewSession(nil, cfg())
			return []func() string{buildBody(s, c17RT{}, rtDoc), buildBody(s, c17RU{}, ruDoc)}
		}},
		{"H6-builder-unsupported-type", func() []func() string {
			s := builder.NewSession(nil, cfg())
			return []func() string{buildBody(s, c17Bad{}, badDoc), buildBody(s, c17HoldsBad{}, hdr(ev.EMap(), ev.EStr("x"), ev.EPInt(1), ev.EEnd())), buildBody(s, c17Bad{}, badDoc)}
		}},
		{"H9-builder-unsupported-self-referential-type-then-its-pointer", func() []func() string {
			s := builder.NewSession(nil, cfg())
			doc := hdr(ev.EMap(), ev.EEnd())
			first, second := buildBody(s, c17BadSelf{}, doc), buildBody(s, &c17BadSelf{}, doc)
			return []func() string{func() string { return first() + " then " + second() }, buildBody(s, &c17BadSelf{}, doc)}
		}},
		{"H10-iterator-unsupported-self-referential-type-then-its-pointer", func() []func() string {
			s := iterator.NewSession(nil, cfg())
			first, second := iterBody(s, c17BadSelf{}), iterBody(s, &c17BadSelf{})
			return []func() string{func() string { return first() + " then " + second() }, iterBody(s, &c17BadSelf{})}
		}},
		{"H7-three-threads-mixed", func() []func() string {
			s := iterator.NewSession(nil, cfg())
			b := builder.NewSession(nil, cfg())
			return []func() string{iterBody(s, tv), iterBody(s, rt), buildBody(b, c17T{}, tDoc)}
		}},
		{"H8-child-sessions-of-one-parent", func() []func() string {
			parent := iterator.NewSession(nil, cfg())
			return []func() string{iterBody(parent, tv), func() string { return iterBody(iterator.NewSession(parent, cfg()), tv)() }}
		}},
	}
}

func resClass(r string) string {
	switch {
	case r == "ERROR":
		return "error"
	case strings.HasPrefix(r, "ok:"):
		return "ok"
	case strings.HasPrefix(r, "ESCAPED PANIC"):
		return "panic"
	}
	return "other"
}

func c17Alone(h c17Harness) []string {
	n := len(h.mk())
	out := make([]string, n)
	for i := 0; i < n; i++ {
		out[i] = h.mk()[i]() // fresh shared state, only thread i runs
	}
	return out
}

// ---- scheduler variant: exhaustive interleavings up to a preemption bound ----

func c17SchedRun(c *fx.Ctx) {
	if c17Install == nil {
		panic("C17 scheduler exploration needs the vcheck-sched binary")
	}
	s := &sched.Scheduler{}
	c17Install(s)
	bound := c.Pick(2, 3)
	for _, h := range c17Harnesses() {
		h := h
		alone := c17Alone(h)
		outcomes := map[string]bool{}
		schedules := map[[20]byte]bool{} // hashes of operation logs: the logs themselves would not fit in memory at bound 3
		hb := bound
		if len(h.mk()) >= 3 && hb > 2 {
			hb = 2 // three-thread harnesses: bound 3 does not finish in a usable time (one first-level subtree ran > 75 CPU-minutes)
		}
		for b := 0; b <= hb; b++ {
			ex := &sched.Explorer{S: s, Bodies: h.mk, Bound: b, Take: c.Take}
			ex.Check = func(x *sched.Exec, schedule []int) {
				key := strings.Join(x.Log, " ")
				c.Add("executions_checked", 1) // also ticks the stall watchdog while only known operation orders recur
				kh := sha1.Sum([]byte(key))
				if schedules[kh] {
					return
				}
				schedules[kh] = true
				c.Add("schedules", 1)
				c.Add("states", 1)
				c.Distinct("states", h.name+key)
				w := c17Witness{Harness: h.name, Schedule: schedule, Log: x.Log, Results: x.Results, Alone: alone}
				if x.Deadlock {
					c.Violation(h.name+":deadlock", fmt.Sprintf("%s deadlocks under schedule [%s]: %v", h.name, clipS(key), x.Blocked), w)
					return
				}
				for i := range x.Results {
					if x.Results[i] != alone[i] {
						c.Violation(fmt.Sprintf("%s:thread-%d:%s-but-alone-%s", h.name, i, resClass(x.Results[i]), resClass(alone[i])),
							fmt.Sprintf("%s under schedule [%s]: thread %d returns %s, alone it returns %s", h.name, clipS(key), i, clipS(x.Results[i]), clipS(alone[i])), w)
						return
					}
				}
				outcomes[strings.Join(x.Results, "|")] = true
				if len(schedules)%400 == 1 {
					c.Sample(map[string]interface{}{"harness": h.name, "schedule": key})
				}
			}
			ex.Explore()
			c.Add("executions", ex.Executions)
			c.Add("evaluations", ex.Executions)
			c.Add("transitions", ex.Decisions)
			c.Add("traces_validated_against_impl", ex.Executions)
			c.Max("max:scheduling_points_per_execution", int64(ex.MaxPoints))
			c.Max("max:preemption_bound_completed", int64(b))
			if ex.Err != nil {
				c.Violation(h.name+":replay-divergence", fmt.Sprintf("%s: %v", h.name, ex.Err), c17Witness{Harness: h.name})
			}
		}
		c.Add("harnesses_explored", 1)
	}
}

// ---- race variant: the same bodies free-running under the race detector (sampling of schedules) ----

func c17RaceRun(c *fx.Ctx) {
	reps := c.Pick(150, 2000)
	for _, procs := range []int{2, 16} {
		runtime.GOMAXPROCS(procs)
		for _, h := range c17Harnesses() {
			if !c.Take() {
				continue
			}
			alone := c17Alone(h)
			for r := 0; r < reps; r++ {
				bodies := h.mk()
				res := make([]string, len(bodies))
				var wg sync.WaitGroup
				start := make(chan struct{})
				for i, b := range bodies {
					wg.Add(1)
					go func(i int, b func() string) {
						defer wg.Done()
						<-start
						res[i] = b()
					}(i, b)
				}
				close(start)
				wg.Wait()
				c.Add("evaluations", 1)
				c.Add("free_running_executions", 1)
				for i := range res {
					if res[i] != alone[i] {
						c.Violation(fmt.Sprintf("%s:free-running:thread-%d:%s-but-alone-%s", h.name, i, resClass(res[i]), resClass(alone[i])),
							fmt.Sprintf("%s free-running (GOMAXPROCS=%d, repetition %d): thread %d returns %s, alone %s", h.name, procs, r, i, clipS(res[i]), clipS(alone[i])), c17Witness{Harness: h.name, Results: res, Alone: alone})
						break
					}
				}
			}
		}
		// separate instances of everything, used concurrently
		if c.Take() {
			c17SeparateInstances(c, procs, c.Pick(60, 600))
		}
	}
	if p := os.Getenv("VERIF_RACE_LOG"); p != "" {
		files, _ := filepath.Glob(p + ".*")
		for _, f := range files {
			b, _ := os.ReadFile(f)
			if strings.Contains(string(b), "DATA RACE") {
				site := "unknown"
				for _, l := range strings.Split(string(b), "\n") {
					if strings.Contains(l, "go-concise-encoding/") && strings.Contains(l, "()") {
						site = strings.TrimSpace(l)
						break
					}
				}
				if i := strings.Index(site, "go-concise-encoding/"); i >= 0 {
					site = site[i+len("go-concise-encoding/"):]
				}
				c.Violation("data-race:"+site, "the race detector reports: "+clipS(string(b)), c17Witness{Harness: "free-running"})
			}
			os.Remove(f)
		}
	}
}

func mustParseURL(s string) *url.URL {
	u, err := url.Parse(s)
	if err != nil {
		panic(err)
	}
	return u
}

func safeMarshal(m ce.Marshaler, v interface{}) (d []byte, err error) {
	defer func() {
		if x := recover(); x != nil {
			err = fmt.Errorf("panic: %v", x)
		}
	}()
	return m.MarshalToDocument(v)
}

func c17SeparateInstances(c *fx.Ctx, procs, rounds int) {
	type job struct {
		name string
		run  func() string
	}
	bigs := []interface{}{}
	for k := uint(60); k < 100; k++ {
		v := new(big.Int).Lsh(big.NewInt(1), k)
		bigs = append(bigs, v, new(big.Int).Neg(v))
	}
	docC, _, _ := codec.Encode(codec.CBE, ioCorpus(0)[1].events, nil, true)
	docT, _, _ := codec.Encode(codec.CTE, ioCorpus(0)[1].events, nil, true)
	mkJobs := func(g int) []job {
		val := []interface{}{bigs, fmt.Sprintf("goroutine %d", g), map[string]int{"k": g}, []float64{float64(g), 0.5}, c17T{A: g, B: "b"},
			// one input per shortcut: escapes written as \[hex], short escapes, times with zones, big floats, bools, bytes, UIDs, URLs
			fmt.Sprintf("esc %c %c %c \"\\\n\t %c", rune(1+g), rune(0x2028+g%2), rune(0x7f+g), rune(0x10+g)),
			time.Date(2000+g, time.Month(1+g), 1+g, g, g, g, g*1000, time.FixedZone("", 3600*g)), time.Date(1999, 1, 2, 3, 4, 5, 6, time.UTC),
			new(big.Float).SetPrec(100).SetFloat64(float64(g) + 0.75), []bool{g%2 == 0, true, false, g%3 == 0, true, true, false, false, true}, []byte{byte(g), 1, 2},
			types.UID{byte(g), 2, 3, 4, 5, 6, 7, 8, 9, 10, 11, 12, 13, 14, 15, 16}, mustParseURL(fmt.Sprintf("http://h/%d", g)), float32(g) + 0.5, -float64(g) - 1e-9, uint64(1<<63) + uint64(g), []uint16{uint16(g), 65535}}
		mc, mt := ce.NewCBEMarshaler(configuration.New()), ce.NewCTEMarshaler(configuration.New())
		uc, ut := ce.NewCBEUnmarshaler(configuration.New()), ce.NewCTEUnmarshaler(configuration.New())
		return []job{
			{"cte-marshal", func() string { d, err := mt.MarshalToDocument(val); return obs(string(d), err) }},
			{"cbe-marshal", func() string { d, err := mc.MarshalToDocument(val); return obs(fmt.Sprintf("%x", d), err) }},
			{"cbe-unmarshal", func() string { v, err := uc.UnmarshalFromDocument(docC, nil); return obs(valueKey(v), err) }},
			{"cte-unmarshal", func() string { v, err := ut.UnmarshalFromDocument(docT, nil); return obs(valueKey(v), err) }},
			{"rules", func() string {
				rec := &ev.Recorder{}
				_, err := ev.TryDriveAll(rules.NewRules(rec, configuration.New()), ioCorpus(0)[1].events)
				return obs(ev.Join(rec.Events), err)
			}},
		}
	}
	// the marshal corpus of C04/C05 through separate marshalers: goroutine g starts at a different offset, so at
	// any moment different goroutines are inside different encoder paths
	var corpus []gen.GV
	for i, g := range gen.GoValues(1) {
		if i%3 == 0 && !containsMap(reflect.TypeOf(g.V)) {
			corpus = append(corpus, g)
		}
	}
	corpusAlone := make([][2]string, len(corpus))
	{
		mc, mt := ce.NewCBEMarshaler(configuration.New()), ce.NewCTEMarshaler(configuration.New())
		for i, g := range corpus {
			d, err := safeMarshal(mc, g.V)
			t, err2 := safeMarshal(mt, g.V)
			corpusAlone[i] = [2]string{obs(string(d), err), obs(string(t), err2)}
		}
	}
	const G = 8
	alone := make([][]string, G)
	for g := 0; g < G; g++ {
		for _, j := range mkJobs(g) {
			alone[g] = append(alone[g], j.run())
		}
	}
	var wg sync.WaitGroup
	var mu sync.Mutex
	for g := 0; g < G; g++ {
		wg.Add(1)
		go func(g int) {
			defer wg.Done()
			jobs := mkJobs(g)
			if rounds >= 2 {
				mc, mt := ce.NewCBEMarshaler(configuration.New()), ce.NewCTEMarshaler(configuration.New())
				for k := range corpus {
					i := (k + g*len(corpus)/G) % len(corpus)
					d, err := safeMarshal(mc, corpus[i].V)
					t, err2 := safeMarshal(mt, corpus[i].V)
					if got := [2]string{obs(string(d), err), obs(string(t), err2)}; got != corpusAlone[i] {
						mu.Lock()
						c.Violation("separate-instances:corpus-marshal:result-differs", fmt.Sprintf("goroutine %d marshaling %s with its own marshalers gets %s / %s, alone %s / %s (GOMAXPROCS=%d)", g, corpus[i].Name, clipS(got[0]), clipS(got[1]), clipS(corpusAlone[i][0]), clipS(corpusAlone[i][1]), procs), c17Witness{Harness: "separate-instances:corpus-marshal"})
						mu.Unlock()
						return
					}
				}
			}
			for r := 0; r < rounds; r++ {
				for ji, j := range jobs {
					if got := j.run(); got != alone[g][ji] {
						mu.Lock()
						c.Violation("separate-instances:"+j.name+":result-differs", fmt.Sprintf("goroutine %d, %s with its own instance returns %s, alone %s (GOMAXPROCS=%d)", g, j.name, clipS(got), clipS(alone[g][ji]), procs), c17Witness{Harness: "separate-instances:" + j.name})
						mu.Unlock()
						return
					}
				}
			}
		}(g)
	}
	wg.Wait()
	c.Add("evaluations", int64(G*rounds*5))
	c.Add("separate_instance_calls", int64(G*rounds*5))
}

func init() {
	register(&fx.Check{
		ID:       "C17",
		Level:    "model_checking",
		Variants: []string{"-sched", "-race"},
		Rule: "(scheduler build) 11 closed harnesses of 2-3 threads on shared iterator/builder sessions (first use of the same new struct type, directly and behind interface{}; mutually recursive types requested in opposite orders; unsupported types alone and nested; an unsupported self-referential type then its pointer; typed builders on a shared builder session; a child session of a shared parent; three threads mixed): " +
			"every interleaving of the hooked sync.Map / sync.WaitGroup operations with at most 2 (quick) / 3 (thorough; 2 for the three-thread harnesses) preemptions is executed on the real code under a cooperative scheduler (WaitGroup.Wait modelled as blocking); oracle: no deadlock and every thread returns exactly what it returns when run alone on fresh sessions; states = distinct schedules executed, transitions = scheduling decisions; " +
			"(race build) the same bodies plus 8 goroutines with separate marshalers/unmarshalers/validators run free under the Go race detector with GOMAXPROCS 2 and 16 — a sampling of schedules, any race report or differing result is a violation; distinct_nontrivial = distinct schedules",
		Assumptions: []string{"the cooperative scheduler interleaves only at the hooked synchronisation operations of iterator/session.go and builder/session.go (the only ones in the library); unsynchronised accesses are the race build's job",
			"the race half samples schedules (free-running), it is not exhaustive", "preemption-bounded: schedules needing more preemptions than the bound are not covered"},
		TrustedBase: []string{"cooperative scheduler (internal/sched)", "vsync shim injected by go build -overlay", "Go race detector"},
		Guards:      map[string]int64{"schedules": 2000, "harnesses_explored": 9 * 16, "free_running_executions": 1000},
		Run: func(c *fx.Ctx) {
			switch c.Variant {
			case "-sched":
				c17SchedRun(c)
			case "-race":
				c17RaceRun(c)
			default:
				panic("C17 runs in the vcheck-sched and vcheck-race binaries")
			}
		},
		Replay: func(raw json.RawMessage) string {
			var w c17Witness
			if err := json.Unmarshal(raw, &w); err != nil {
				return err.Error()
			}
			if c17Install == nil {
				return "NOT-REPLAYABLE: schedule replay needs the scheduler build: /verif/bin/vcheck-sched replay <file>"
			}
			for _, h := range c17Harnesses() {
				if h.name != w.Harness {
					continue
				}
				s := &sched.Scheduler{}
				c17Install(s)
				alone := c17Alone(h)
				var last string
				for rep := 0; rep < 2; rep++ { // replay twice: identical observations are required before believing it
					x, err := s.Run(h.mk(), w.Schedule)
					if err != nil {
						return "schedule diverges on replay: " + err.Error()
					}
					cur := fmt.Sprintf("%v|%v", x.Results, x.Deadlock)
					if rep == 1 && cur != last {
						return "replay is not deterministic"
					}
					last = cur
					if rep == 1 {
						if x.Deadlock {
							return fmt.Sprintf("deadlock: %v", x.Blocked)
						}
						for i := range x.Results {
							if x.Results[i] != alone[i] {
								return fmt.Sprintf("thread %d returns %s, alone %s", i, clipS(x.Results[i]), clipS(alone[i]))
							}
						}
					}
				}
				return ""
			}
			return "unknown harness"
		},
	})
}
