package checks

import (
	"crypto/sha256"
	"encoding/json"
	"fmt"
	"math"
	"strings"

	"github.com/kstenerud/go-concise-encoding/configuration"
	"github.com/kstenerud/go-concise-encoding/rules"
	"verif/harness/internal/ev"
	"verif/harness/internal/fx"
	"verif/harness/internal/rulesmodel"
	"verif/harness/internal/statekey"
)

// rsearch is E1: explicit-state breadth-first search over event sequences, every transition executed on a fresh
// real rules.RulesEventReceiver (replay of the path + 1 event) in lock-step with the reference model.
type rsearch struct {
	// warmup (optional): events driven into the validator before Reset(); the search then starts from the reused
	// instance ("start from non-initial states"). The model always starts fresh. A rejected warm-up event is fine
	// (an aborted document followed by Reset is a legitimate history).
	warmup       []ev.E
	tag          string // prefix for violation signatures of this search (e.g. "after-reset:")
	prefix       []ev.E
	alphabet     []ev.E
	depth        int
	split        int
	config       func() *configuration.Configuration
	mcfg         rulesmodel.Config
	checkVerdict bool // C10/C13: accept <=> model
	checkPass    bool // C15: pass-through
	keepCounters bool // keep monotone counters in the state key
	onComplete   func(c *fx.Ctx, events []ev.E)
}

var rulesKeyOpt = statekey.Options{Skip: map[string]bool{"config": true, "receiver": true, "objectCount": true, "LocalReferenceCount": true}}
var rulesKeyOptFull = statekey.Options{Skip: map[string]bool{"config": true, "receiver": true}}

type rwitness struct {
	Warmup []ev.E            `json:"warmup_then_reset,omitempty"`
	Events []ev.E            `json:"events"` // accepted prefix followed by the deciding event
	Config map[string]uint64 `json:"config,omitempty"`
}

func (s *rsearch) newConfig() *configuration.Configuration {
	if s.config != nil {
		return s.config()
	}
	return configuration.New()
}

func (s *rsearch) build(path []uint8) (*rules.RulesEventReceiver, *ev.Recorder, *rulesmodel.Model) {
	rec := &ev.Recorder{}
	r := rules.NewRules(rec, s.newConfig())
	m := rulesmodel.New(s.mcfg)
	if s.warmup != nil {
		ev.TryDriveAll(r, s.warmup)
		r.Reset()
		rec.Reset()
	}
	for _, e := range s.prefix {
		ev.Drive(r, e)
		m.Step(e)
	}
	for _, a := range path {
		ev.Drive(r, s.alphabet[a])
		m.Step(s.alphabet[a])
	}
	return r, rec, m
}

func (s *rsearch) events(path []uint8, last int) []ev.E {
	out := append([]ev.E{}, s.prefix...)
	for _, a := range path {
		out = append(out, s.alphabet[a])
	}
	if last >= 0 {
		out = append(out, s.alphabet[last])
	}
	return out
}

func (s *rsearch) run(c *fx.Ctx) {
	type st struct{ path []uint8 }
	frontier := []st{{}}
	seen := map[[16]byte]struct{}{}
	opt := rulesKeyOpt
	if s.keepCounters {
		opt = rulesKeyOptFull
	}
	// the prefix itself must be accepted
	func() {
		defer func() {
			if x := recover(); x != nil {
				c.Violation("prefix-rejected", fmt.Sprintf("validator rejects the fixed prefix %s: %v", ev.Join(s.prefix), x), rwitness{Events: s.prefix})
				frontier = nil
			}
		}()
		s.build(nil)
	}()
	for depth := 0; depth < s.depth && len(frontier) > 0; depth++ {
		var next []st
		last := depth == s.depth-1
		for _, cur := range frontier {
			owned := true
			if depth == s.split {
				owned = c.Take()
			}
			if !owned {
				continue
			}
			count := depth >= s.split || c.Shard == 0
			if count {
				c.Add("states_expanded", 1)
			}
			for ai, e := range s.alphabet {
				r, rec, m := s.build(cur.path)
				ctxName := modelCtx(m)
				before := len(rec.Events)
				err := ev.TryDrive(r, e)
				mv := m.Step(e)
				if count {
					c.Add("transitions", 1)
					c.Add("traces_validated_against_impl", 1)
					if err == nil {
						c.Add("accepted_transitions", 1)
					} else {
						c.Add("rejected_transitions", 1)
					}
					if mv == rulesmodel.Either {
						c.Add("dontcare_transitions", 1)
					}
				}
				if s.checkVerdict {
					if err == nil && mv == rulesmodel.Reject {
						c.Violation(s.tag+fmt.Sprintf("accepts-invalid(%s):%s@%s", m.Reason, evClass(e), ctxName),
							fmt.Sprintf("validator ACCEPTS %s after [%s] but the document is not well-formed there", e.Key(), ev.Join(s.events(cur.path, -1))),
							rwitness{Warmup: s.warmup, Events: s.events(cur.path, ai)})
					}
					if err != nil && mv == rulesmodel.Accept {
						c.Violation(s.tag+fmt.Sprintf("rejects-valid:%s@%s", evClass(e), ctxName),
							fmt.Sprintf("validator REJECTS %s after [%s] (%v) but the sequence is a well-formed prefix", e.Key(), ev.Join(s.events(cur.path, -1)), err),
							rwitness{Warmup: s.warmup, Events: s.events(cur.path, ai)})
					}
				}
				if s.checkPass && err == nil {
					if msg := passThroughDiff(e, rec.Events[before:]); msg != "" {
						c.Violation(s.tag+fmt.Sprintf("passthrough:%s@%s", evClass(e), ctxName),
							fmt.Sprintf("after accepted %s (prefix [%s]) next receiver got %s", e.Key(), ev.Join(s.events(cur.path, -1)), msg),
							rwitness{Warmup: s.warmup, Events: s.events(cur.path, ai)})
					}
					if count {
						c.Distinct("nontrivial", "pass:"+evClass(e)+"@"+ctxName)
					}
				}
				if err != nil || mv == rulesmodel.Reject {
					continue
				}
				if e.K == ev.ED {
					if count {
						c.Add("complete_documents", 1)
					}
					if s.onComplete != nil {
						s.onComplete(c, s.events(cur.path, ai))
					}
					if len(cur.path) >= 4 && c.Shard%5 == 0 {
						c.Sample(ev.Join(s.events(cur.path, ai)))
					}
				}
				if last {
					if count {
						c.Add("leaf_successors", 1)
					}
					continue
				}
				k := sha256.Sum256([]byte(statekey.Of(r, opt) + "\x00" + m.Key()))
				var k16 [16]byte
				copy(k16[:], k[:16])
				if _, ok := seen[k16]; ok {
					continue
				}
				seen[k16] = struct{}{}
				if count {
					c.Add("states", 1)
					c.Distinct("states", string(k16[:]))
				}
				np := make([]uint8, len(cur.path)+1)
				copy(np, cur.path)
				np[len(cur.path)] = uint8(ai)
				next = append(next, st{np})
			}
		}
		frontier = next
		c.Max("max:depth_completed", int64(depth+1))
	}
}

func modelCtx(m *rulesmodel.Model) string { return m.ContextName() }

// evClass is the discriminator used in violation signatures: the event kind (plus array type for array events).
func evClass(e ev.E) string {
	switch e.K {
	case ev.Array, ev.StrArray, ev.ArrayBegin, ev.CustomBegin:
		return e.K.String() + "." + strings.ReplaceAll(e.AT.String(), " ", "")
	case ev.Version:
		return fmt.Sprintf("v%d", e.U)
	}
	return e.K.String()
}

// passThroughDiff implements C15's oracle: got must be exactly [e] or the documented substitute.
func passThroughDiff(e ev.E, got []ev.E) string {
	want := e
	switch e.K {
	case ev.BigInt:
		if e.Big == nil {
			want = ev.ENull()
		}
	case ev.BigFloat:
		if e.BF == nil {
			want = ev.ENull()
		}
	case ev.BigDecimal:
		if e.BDec == nil {
			want = ev.ENull()
		} else if e.BDec.Form == 2 { // apd.NaNSignaling
			want = ev.ENaN(true)
		} else if e.BDec.Form == 3 { // apd.NaN
			want = ev.ENaN(false)
		}
	case ev.Float:
		if e.F != e.F {
			want = ev.ENaN(math.Float64bits(e.F)&(1<<51) == 0)
		}
	case ev.DFloat:
		if e.DF.IsNan() {
			want = ev.ENaN(e.DF.IsSignalingNan())
		}
	}
	if len(got) == 1 && got[0].Key() == want.Key() {
		return ""
	}
	return fmt.Sprintf("[%s] instead of [%s]", ev.Join(got), want.Key())
}

func replayRules(chkVerdict, chkPass bool, mcfg rulesmodel.Config) func(json.RawMessage) string {
	return func(raw json.RawMessage) string {
		var w rwitness
		if err := json.Unmarshal(raw, &w); err != nil {
			return "bad witness: " + err.Error()
		}
		if len(w.Events) == 0 {
			return "empty witness"
		}
		rec := &ev.Recorder{}
		cfg := configuration.New()
		applyRuleLimits(cfg, w.Config)
		r := rules.NewRules(rec, cfg)
		m := rulesmodel.New(mcfg)
		if w.Warmup != nil {
			ev.TryDriveAll(r, w.Warmup)
			r.Reset()
			rec.Reset()
		}
		for i, e := range w.Events[:len(w.Events)-1] {
			if err := ev.TryDrive(r, e); err != nil {
				return fmt.Sprintf("prefix event %d (%s) rejected: %v", i, e.Key(), err)
			}
			m.Step(e)
		}
		e := w.Events[len(w.Events)-1]
		before := len(rec.Events)
		err := ev.TryDrive(r, e)
		mv := m.Step(e)
		if chkVerdict {
			if err == nil && mv == rulesmodel.Reject {
				return "validator accepts " + e.Key() + " where the model rejects"
			}
			if err != nil && mv == rulesmodel.Accept {
				return "validator rejects " + e.Key() + " (" + err.Error() + ") where the model accepts"
			}
		}
		if chkPass && err == nil {
			if msg := passThroughDiff(e, rec.Events[before:]); msg != "" {
				return "pass-through: " + msg
			}
		}
		return ""
	}
}

func applyRuleLimits(cfg *configuration.Configuration, m map[string]uint64) {
	for k, v := range m {
		switch k {
		case "MaxContainerDepth":
			cfg.Rules.MaxContainerDepth = v
		case "MaxObjectCount":
			cfg.Rules.MaxObjectCount = v
		case "MaxArraySizeBytes":
			cfg.Rules.MaxArraySizeBytes = v
		case "MaxIdentifierLength":
			cfg.Rules.MaxIdentifierLength = v
		case "MaxMarkerCount":
			cfg.Rules.MaxMarkerCount = v
		case "MaxLocalReferenceCount":
			cfg.Rules.MaxLocalReferenceCount = v
		case "MaxDocumentSizeBytes":
			cfg.Rules.MaxDocumentSizeBytes = v
		}
	}
}
