package checks

import (
	"math"

	compact_float "github.com/kstenerud/go-compact-float"
	compact_time "github.com/kstenerud/go-compact-time"
	"github.com/kstenerud/go-concise-encoding/ce/events"
	"verif/harness/internal/codec"
	"verif/harness/internal/ev"
	"verif/harness/internal/gen"
)

type ioDoc struct {
	name   string
	events []ev.E
	cbe    []byte
	cte    []byte
	valid  bool
}

// ioCorpus: documents containing every token kind the decoders read through distinct code paths (single bytes,
// fixed-width fields, ULEB fields, compact float/time fields read by external decoders, short and long arrays, chunks).
func ioCorpus(n int) []ioDoc {
	var out []ioDoc
	add := func(name string, es ...ev.E) {
		doc := append(append([]ev.E{ev.EBD(), ev.EV(0)}, es...), ev.EED())
		if _, err := codec.ValidateEvents(doc, nil); err != nil {
			return
		}
		d := ioDoc{name: name, events: doc, valid: true}
		if b, _, err := codec.Encode(codec.CBE, doc, nil, true); err == nil {
			if _, err := codec.Decode(codec.CBE, b, nil, true); err == nil {
				d.cbe = b
			}
		}
		if b, _, err := codec.Encode(codec.CTE, doc, nil, true); err == nil {
			if _, err := codec.Decode(codec.CTE, b, nil, true); err == nil {
				d.cte = b
			}
		}
		if d.cbe != nil || d.cte != nil {
			out = append(out, d)
		}
	}
	lst := func(es ...ev.E) []ev.E { return append(append([]ev.E{ev.EList()}, es...), ev.EEnd()) }
	add("null", ev.ENull())
	add("list-scalars", lst(ev.ETrue(), ev.EFalse(), ev.ENull(), ev.EPInt(0), ev.EPInt(100), ev.ENInt(100), ev.EPInt(255), ev.EPInt(65535), ev.EPInt(1<<32-1), ev.EPInt(1<<40), ev.EPInt(1<<63), ev.ENInt(1<<63))...)
	add("bigints", lst(ev.EBigInt(gen.Pow2(70)), ev.EBigInt(gen.Pow2(130)))...)
	add("floats", lst(ev.EFloat(1.5), ev.EFloat(0.1), ev.EFloat(float64(float32(0.1))), ev.EFloat(math.Inf(1)), ev.ENaN(false), ev.ENaN(true), ev.EFloat(math.Copysign(0, -1)))...)
	add("decimals", lst(ev.EDFloat(compact_float.DFloatValue(-2, 12345)), ev.EDFloat(compact_float.DFloatValue(400, -7)))...)
	add("uid", lst(ev.EUID(uidA))...)
	for i, tz := range gen.Timezones(0) {
		if i%3 == 0 {
			add("time", lst(ev.ETime(compact_time.NewTime(12, 30, 15, 123456789, tz)), ev.ETime(compact_time.NewTimestamp(2020, 1, 15, 1, 2, 3, 0, tz)))...)
		}
	}
	add("date", lst(ev.ETime(compact_time.NewDate(2000, 1, 15)), ev.ETime(compact_time.NewDate(-500, 12, 31)))...)
	for _, k := range gen.ArrayKinds() {
		for _, ln := range []int{0, 3, 15, 16, 40} {
			c := k.Content(ln)
			cnt := ln
			if k.Text {
				cnt = len(c)
			}
			add("array-"+k.Name, k.Whole(c, cnt)[0])
		}
		c := k.Content(6)
		if !k.Text && k.ElemBytes > 0 {
			add("chunked-"+k.Name, k.Begin(), ev.EChunk(2, true), ev.EData(c[:2*k.ElemBytes]), ev.EChunk(4, false), ev.EData(c[2*k.ElemBytes:]))
		}
	}
	add("map", ev.EMap(), ev.EStr("a"), ev.EPInt(1), ev.EPInt(2), ev.EStr("two"), ev.ETrue(), lst()[0], lst()[1], ev.EEnd())
	add("nested", lst(lst(lst(ev.EPInt(1))...)...)...)
	add("node", ev.ENode(), ev.EStr("v"), ev.EPInt(1), ev.ENode(), ev.EPInt(2), ev.EEnd(), ev.EEnd())
	add("edge", ev.EEdge(), ev.EStr("s"), ev.ENull(), ev.EPInt(1), ev.EEnd())
	add("record", ev.ERecType("r"), ev.EStr("a"), ev.EStr("b"), ev.EEnd(), ev.EList(), ev.ERec("r"), ev.EPInt(1), ev.EPInt(2), ev.EEnd(), ev.ERec("r"), ev.ENull(), ev.EStr("x"), ev.EEnd(), ev.EEnd())
	add("marker-ref", ev.EList(), ev.EMarker("m"), ev.EStr("marked"), ev.ERef("m"), ev.EMarker("n"), ev.EList(), ev.ERef("n"), ev.EEnd(), ev.EEnd())
	add("media", ev.EMedia("text/plain", []byte("hello")))
	add("custom-bin", ev.ECustomBin(77, []byte{1, 2, 3}))
	add("remote-ref", ev.ESArr(events.ArrayTypeReferenceRemote, "http://x.y/z"))
	add("padding", ev.EList(), ev.EPad(), ev.EPInt(1), ev.EPad(), ev.EEnd())
	add("string-unicode", ev.EStr("aé€𝄞 \"quoted\" \\ \n tab\t"))
	add("long-string", ev.EStr(string(gen.ArrayKinds()[0].Content(200))))
	add("list-of-strings", lst(ev.EStr(""), ev.EStr("a"), ev.EStr("0123456789abcde"), ev.EStr("0123456789abcdef"))...)
	if n > 0 && len(out) > n {
		// keep an evenly spaced subset
		var sub []ioDoc
		for i := 0; i < n; i++ {
			sub = append(sub, out[i*len(out)/n])
		}
		out = sub
	}
	return out
}

// invalidVariants: truncations and single-byte mutations of d (not guaranteed invalid; the oracle is differential).
func invalidVariants(b []byte, max int) [][]byte {
	var out [][]byte
	step := 1
	if len(b) > max {
		step = len(b)/max + 1
	}
	for k := 1; k < len(b); k += step {
		out = append(out, append([]byte{}, b[:k]...))
	}
	for k := 2; k < len(b); k += step {
		m := append([]byte{}, b...)
		m[k] ^= 0x5a
		out = append(out, m)
	}
	return out
}
