package checks

import (
	"encoding/json"
	"fmt"
	"regexp"
	"sort"
	"strings"

	"github.com/kstenerud/go-concise-encoding/ce"
	"github.com/kstenerud/go-concise-encoding/configuration"
	"verif/harness/internal/codec"
	"verif/harness/internal/ev"
	"verif/harness/internal/fx"
	"verif/harness/internal/nf"
)

type c06Witness struct {
	Format string `json:"format"`
	Events []ev.E `json:"events"`
	Doc    []byte `json:"document"`
	Text   string `json:"text,omitempty"`
}

// safeCall converts an escaped panic into a marker error string (C07 is the property about escaping panics; here it is
// reported as a failure to unmarshal/marshal).
func safeCall(f func() error) (err error) {
	defer func() {
		if x := recover(); x != nil {
			err = fmt.Errorf("ESCAPED PANIC: %v", x)
		}
	}()
	return f()
}

var reNum = regexp.MustCompile(`[0-9]+`)
var reQuoted = regexp.MustCompile(`"[^"]*"|\[[^\]]*\]`)

// errClass normalises an error message into a root-cause class: digits and quoted/bracketed payloads removed.
func errClass(err error) string {
	s := err.Error()
	if strings.HasPrefix(s, "line ") {
		if i := strings.Index(s, ": "); i > 0 {
			s = s[i+2:]
		}
	}
	if i := strings.Index(s, "(via"); i > 0 {
		s = s[:i]
	}
	s = reQuoted.ReplaceAllString(s, "_")
	s = reNum.ReplaceAllString(s, "N")
	if len(s) > 90 {
		s = s[:90]
	}
	return strings.TrimSpace(s)
}

// c06Features: structural features of a document that select builder code paths.
func c06Features(doc []ev.E) string {
	set := map[string]bool{}
	inRID := false
	for _, e := range doc {
		if e.K == ev.Data && inRID {
			for _, b := range e.Data {
				if b >= 0x80 {
					set["rid-non-ascii"] = true
				}
			}
		}
		if e.K == ev.ArrayBegin {
			inRID = e.AT.String() == "ResourceID"
		} else if e.K != ev.Chunk && e.K != ev.Data {
			inRID = false
		}
		switch e.K {
		case ev.Edge:
			set["edge"] = true
		case ev.Node:
			set["node"] = true
		case ev.Record:
			set["record"] = true
		case ev.Marker:
			set["marker"] = true
		case ev.Ref:
			set["reference"] = true
		case ev.Media, ev.MediaBegin:
			set["media"] = true
		case ev.CustomBin:
			set["custom-binary"] = true
		case ev.CustomText:
			set["custom-text"] = true
		case ev.CustomBegin:
			set["custom"] = true
		case ev.Array, ev.StrArray, ev.ArrayBegin:
			name := strings.ReplaceAll(e.AT.String(), " ", "")
			if name != "String" {
				set["array-"+name] = true
			}
			if name == "ResourceID" {
				for _, b := range e.Data {
					if b >= 0x80 {
						set["rid-non-ascii"] = true
					}
				}
				delete(set, "array-ResourceID")
			}
		}
	}
	var out []string
	for k := range set {
		out = append(out, k)
	}
	sort.Strings(out)
	if len(out) == 0 {
		return "plain"
	}
	return strings.Join(out, "+")
}

// c06Coarsen applies the Go-side representation don't-cares of C06: Go has no negative integer zero, no date-only or
// time-of-day-only type (time.Time carries a full timestamp and a *Location), and no 16-bit float (bfloat16 arrays
// are built as []float32). Those distinctions are erased on both sides; typed round trips (C04) keep them.
func c06Coarsen(tokens []string) []string {
	out := make([]string, len(tokens))
	for i, t := range tokens {
		switch {
		case t == "n:-0":
			t = "n:0"
		case strings.HasPrefix(t, "t:"):
			t = "t"
		case strings.HasPrefix(t, "arr:Float16:"):
			parts := strings.Split(t, ":")
			if len(parts) == 5 {
				h := parts[4]
				var sb strings.Builder
				for j := 0; j+4 <= len(h); j += 4 {
					sb.WriteString("0000")
					sb.WriteString(h[j : j+4])
				}
				t = "arr:Float32:" + parts[2] + ":" + parts[3] + ":" + sb.String()
			}
		}
		out[i] = t
	}
	return out
}

var c06Transform = nf.Transform{RecordsToMaps: true, ResolveRefs: true, DropMarkers: true, SortMaps: true, DropPadding: true, DropComments: true}

func untypedRoundTrip(c *fx.Ctx, f codec.Format, doc []ev.E, cls string) {
	if _, err := codec.ValidateEvents(doc, nil); err != nil {
		return
	}
	enc, _, err := codec.Encode(f, doc, nil, true)
	if err != nil {
		return // C01/C02's subject
	}
	if _, err := codec.Decode(f, enc, nil, true); err != nil {
		return // C01/C02's subject
	}
	inTok, err := nf.Of(doc, nf.Options{DropComments: true, DropPadding: true})
	if err != nil {
		return
	}
	c.Add("evaluations", 1)
	w := c06Witness{Format: f.String(), Events: doc, Doc: enc}
	if f == codec.CTE {
		w.Text = string(enc)
	}
	cfg := configuration.New()
	var value interface{}
	uerr := safeCall(func() error {
		var e error
		if f == codec.CBE {
			value, e = ce.NewCBEUnmarshaler(cfg).UnmarshalFromDocument(enc, nil)
		} else {
			value, e = ce.NewCTEUnmarshaler(cfg).UnmarshalFromDocument(enc, nil)
		}
		return e
	})
	if uerr != nil {
		c.Violation(fmt.Sprintf("%s:unmarshal-fails:%s", f, errClass(uerr)), fmt.Sprintf("untyped unmarshal of an accepted %s document fails (%v): [%s] = %s", f, uerr, clipS(ev.Join(doc)), showDoc(f, enc)), w)
		return
	}
	c.Add("unmarshal_ok", 1)
	if nf.HasCycle(inTok) {
		c.Add("cyclic_documents_unmarshal_only", 1)
		return
	}
	var out []byte
	merr := safeCall(func() error {
		var e error
		if f == codec.CBE {
			out, e = ce.NewCBEMarshaler(cfg).MarshalToDocument(value)
		} else {
			out, e = ce.NewCTEMarshaler(cfg).MarshalToDocument(value)
		}
		return e
	})
	if merr != nil {
		c.Violation(fmt.Sprintf("%s:remarshal-fails:%s", f, errClass(merr)), fmt.Sprintf("marshaling the untyped value (%T) built from [%s] fails: %v", value, clipS(ev.Join(doc)), merr), w)
		return
	}
	got, derr := codec.Decode(f, out, nil, true)
	if derr != nil {
		c.Violation(fmt.Sprintf("%s:remarshal-undecodable:%s:%s", f, errClass(derr), c06Features(doc)), fmt.Sprintf("re-marshaled document %s does not decode: %v (from [%s])", showDoc(f, out), derr, clipS(ev.Join(doc))), w)
		return
	}
	outTok, err := nf.Of(got, nf.Options{DropComments: true, DropPadding: true})
	if err != nil {
		return
	}
	a, e1 := nf.Apply(c06Coarsen(inTok), c06Transform)
	b, e2 := nf.Apply(c06Coarsen(outTok), c06Transform)
	if e1 != nil || e2 != nil {
		c.Violation(fmt.Sprintf("%s:structure-broken:%s", f, cls), fmt.Sprintf("tree normal form fails in=%v out=%v", e1, e2), w)
		return
	}
	if d := nf.Diff(a, b); d != "" {
		dk := firstDiffKinds(a, b)
		valueDiff := strings.HasPrefix(dk, "n") || strings.HasPrefix(dk, "t") || strings.HasPrefix(dk, "nan") || strings.HasPrefix(dk, "b->") || strings.HasPrefix(dk, "null") || strings.HasPrefix(dk, "uid") || strings.HasPrefix(dk, "wide")
		if !(strings.HasPrefix(cls, "value:") && valueDiff) {
			cls = c06Features(doc) // the difference is not in the swept value itself: attribute it to the structure
		}
		c.Violation(fmt.Sprintf("%s:data-changed(%s):%s", f, firstDiffKinds(a, b), cls),
			fmt.Sprintf("unmarshal(nil)+marshal changes the data: %s; input [%s] -> value %s -> [%s]", d, clipS(ev.Join(doc)), clipS(fmt.Sprintf("%T %v", value, value)), clipS(ev.Join(got))), w)
		return
	}
	c.Distinct("nontrivial", strings.Join(a, " "))
}

func init() {
	register(&fx.Check{
		ID:    "C06",
		Level: "exploration",
		Rule: "every document of the C01 corpus (structure sweep incl. markers/references/records/nodes/edges to depth 6/7, scalar alphabet × contexts, arrays) encoded as CBE and as CTE: Unmarshal(doc, nil) must succeed; " +
			"marshal(result) decoded again must have the same normal form with records turned into maps, references resolved, markers/comments/padding dropped, map entries compared without order; distinct_nontrivial = distinct resolved normal forms that round-tripped",
		Assumptions: []string{"cyclic documents are only required to unmarshal without error (resolution of a cycle is not finite)", "Go-side representation choices (which integer type, time.Time vs compact time) are not compared: numbers by value, times by field"},
		TrustedBase: []string{"harness normal form + tree transformations internal/nf"},
		Guards:      map[string]int64{"unmarshal_ok": 20000},
		Run: func(c *fx.Ctx) {
			o := corpusOpts{refMaxLen: c.Pick(9, 12), structDepth: c.Pick(6, 7), floatStride: c.Pick(64, 8), latlong: 5, arrayFullMax: c.Pick(2, 4)}
			forEachCorpusDoc(c, o, func(doc []ev.E, cls string) {
				untypedRoundTrip(c, codec.CBE, doc, cls)
				untypedRoundTrip(c, codec.CTE, doc, cls)
				if c.Index()%401 == 0 {
					c.Sample(ev.Join(doc))
				}
			})
		},
		Replay: func(raw json.RawMessage) string {
			var w c06Witness
			if err := json.Unmarshal(raw, &w); err != nil {
				return err.Error()
			}
			f := codec.CBE
			if w.Format == "cte" {
				f = codec.CTE
			}
			c := fx.NewScratchCtx()
			untypedRoundTrip(c, f, w.Events, "replay")
			return c.FirstViolation()
		},
	})
}
