package checks

import (
	"encoding/binary"
	"encoding/json"
	"fmt"
	"math"
	"regexp"
	"strings"

	compact_time "github.com/kstenerud/go-compact-time"
	"github.com/kstenerud/go-concise-encoding/ce/events"
	"verif/harness/internal/codec"
	"verif/harness/internal/ev"
	"verif/harness/internal/fx"
	"verif/harness/internal/nf"
)

type c03Witness struct {
	Dir  string `json:"direction"`
	CBE  []byte `json:"cbe,omitempty"`
	CTE  string `json:"cte,omitempty"`
	Note string `json:"note,omitempty"`
}

func hasCustomText(es []ev.E) bool {
	for _, e := range es {
		if e.K == ev.CustomText || e.K == ev.CustomBegin && e.AT.String() == "Custom Text" {
			return true
		}
	}
	return false
}

// docFeatures names the properties of an accepted document that matter for convertibility; they refine the signature
// of a violation so that one root cause maps to one signature however the document was produced (corpus, mutation, crafted).
func docFeatures(es []ev.E) (features []string, dontCare bool) {
	add := func(f string) {
		for _, g := range features {
			if g == f {
				return
			}
		}
		features = append(features, f)
	}
	var at events.ArrayType
	inArr := false
	var bits uint64
	var data []byte
	misaligned := false // the current chunked bit array has a continued chunk that ends inside a byte
	checkArr := func(at events.ArrayType, n uint64, d []byte) {
		switch at {
		case events.ArrayTypeBit:
			if !misaligned && n%8 != 0 && len(d) > 0 && d[len(d)-1]>>(n%8) != 0 {
				add("bit-array-with-nonzero-padding-bits")
			}
		case events.ArrayTypeFloat16:
			for i := 0; i+1 < len(d); i += 2 {
				if d[i+1]&0x7f == 0x7f && d[i]&0x80 != 0 && (d[i]&0x7f != 0 || true) {
					f := math.Float32frombits(uint32(d[i])<<16 | uint32(d[i+1])<<24)
					if f != f {
						dontCare = true
					}
				}
			}
		case events.ArrayTypeFloat32:
			for i := 0; i+3 < len(d); i += 4 {
				f := math.Float32frombits(binary.LittleEndian.Uint32(d[i:]))
				if f != f {
					dontCare = true
				}
			}
		case events.ArrayTypeFloat64:
			for i := 0; i+7 < len(d); i += 8 {
				f := math.Float64frombits(binary.LittleEndian.Uint64(d[i:]))
				if f != f {
					dontCare = true
				}
			}
		}
	}
	for _, e := range es {
		if inArr && e.K != ev.Chunk && e.K != ev.Data {
			checkArr(at, bits, data) // a chunked array ends where the next event of another kind begins
			inArr = false
		}
		switch e.K {
		case ev.Media, ev.MediaBegin:
			if !mediaTypeRe.MatchString(e.S) {
				add("media-type-outside-cte-grammar")
			}
		case ev.Time:
			if e.T.IsZeroValue() {
				dontCare = true
			} else if err := e.T.Validate(); err != nil {
				add("time-fields-out-of-range")
			}
			if e.T.Type != compact_time.TimeTypeDate && e.T.Timezone.Type == compact_time.TimezoneTypeAreaLocation {
				l := e.T.Timezone.LongAreaLocation
				if !areaLocRe.MatchString(l) && l != "Local" && l != "Etc/UTC" {
					add("area-location-outside-cte-grammar")
				}
			}
		case ev.Array:
			checkArr(e.AT, e.U, e.Data)
		case ev.ArrayBegin:
			if inArr {
				checkArr(at, bits, data) // the previous chunked array ends where the next one begins
			}
			at, inArr, bits, data, misaligned = e.AT, true, 0, nil, false
		case ev.Chunk:
			if inArr {
				bits += e.U
				if at == events.ArrayTypeBit && e.B && e.U%8 != 0 {
					add("bit-array-chunk-not-byte-aligned") // a continued chunk that ends inside a byte
					misaligned = true
				}
			}
		case ev.Data:
			if inArr {
				data = append(data, e.Data...)
			}
		default:
			if inArr {
				checkArr(at, bits, data)
				inArr = false
			}
		}
	}
	if inArr {
		checkArr(at, bits, data)
	}
	return
}

// convertCBE: a CBE document accepted by decoder+rules must convert to accepted CTE with the same data, and back.
func convertCBE(c *fx.Ctx, doc []byte, cls string) {
	es, err := codec.Decode(codec.CBE, doc, nil, true)
	if err != nil {
		c.Add("cbe_inputs_rejected", 1)
		return
	}
	feats, dc := docFeatures(es)
	if dc {
		c.Add("dontcare_documents", 1) // zero-value times, NaN elements in float arrays (payload not expressible in text)
		return
	}
	if len(feats) > 0 {
		cls = strings.Join(feats, "+")
	}
	c.Add("evaluations", 1)
	c.Add("cbe_to_cte_cases", 1)
	w := c03Witness{Dir: "cbe->cte->cbe", CBE: doc}
	inNF, e0 := nf.Of(es, nf.Options{DropPadding: true})
	if e0 != nil {
		return
	}
	text, stage, err := codec.Encode(codec.CTE, es, nil, true)
	if err != nil {
		c.Violation("cbe->cte:encode-fails("+stage+"):"+cls, fmt.Sprintf("accepted CBE % x = [%s] cannot be written as CTE: %v", clipB(doc), clipS(ev.Join(es)), err), w)
		return
	}
	w.CTE = string(text)
	es2, err := codec.Decode(codec.CTE, text, nil, true)
	if err != nil {
		c.Violation("cbe->cte:cte-rejected:"+cls, fmt.Sprintf("accepted CBE % x = [%s] converts to CTE %q which the CTE decoder+rules rejects: %v", clipB(doc), clipS(ev.Join(es)), clipS(string(text)), err), w)
		return
	}
	midNF, e1 := nf.Of(es2, nf.Options{})
	if e1 != nil || nf.Diff(inNF, midNF) != "" {
		c.Violation("cbe->cte:data-changed("+firstDiffKinds(inNF, midNF)+"):"+cls, fmt.Sprintf("CBE % x = [%s] converts to CTE %q carrying different data: %s", clipB(doc), clipS(ev.Join(es)), clipS(string(text)), nf.Diff(inNF, midNF)), w)
		return
	}
	if hasCustomText(es2) {
		return
	}
	back, stage, err := codec.Encode(codec.CBE, es2, nil, true)
	if err != nil {
		c.Violation("cbe->cte->cbe:encode-fails("+stage+"):"+cls, fmt.Sprintf("CTE %q (from CBE % x) cannot be written back as CBE: %v", clipS(string(text)), clipB(doc), err), w)
		return
	}
	es3, err := codec.Decode(codec.CBE, back, nil, true)
	outNF, e2 := nf.Of(es3, nf.Options{DropPadding: true})
	if err != nil || e2 != nil || nf.Diff(inNF, outNF) != "" {
		c.Violation("cbe->cte->cbe:data-changed:"+cls, fmt.Sprintf("converting back gives different data (err=%v): %s; CBE % x -> CTE %q -> CBE % x", err, nf.Diff(inNF, outNF), clipB(doc), clipS(string(text)), clipB(back)), w)
	}
}

// convertCTE: an accepted CTE document without custom text converts to accepted CBE with the same data apart from comments.
func convertCTE(c *fx.Ctx, text []byte, cls string) {
	es, err := codec.Decode(codec.CTE, text, nil, true)
	if err != nil {
		c.Add("cte_inputs_rejected", 1)
		return
	}
	if hasCustomText(es) {
		return
	}
	c.Add("evaluations", 1)
	c.Add("cte_to_cbe_cases", 1)
	w := c03Witness{Dir: "cte->cbe", CTE: string(text)}
	inNF, e0 := nf.Of(es, nf.Options{DropComments: true})
	if e0 != nil {
		return
	}
	bin, stage, err := codec.Encode(codec.CBE, es, nil, true)
	if err != nil {
		c.Violation("cte->cbe:encode-fails("+stage+"):"+cls, fmt.Sprintf("accepted CTE %q = [%s] cannot be written as CBE: %v", clipS(string(text)), clipS(ev.Join(es)), err), w)
		return
	}
	w.CBE = bin
	es2, err := codec.Decode(codec.CBE, bin, nil, true)
	if err != nil {
		c.Violation("cte->cbe:cbe-rejected:"+cls, fmt.Sprintf("accepted CTE %q converts to CBE % x which the CBE decoder+rules rejects: %v", clipS(string(text)), clipB(bin), err), w)
		return
	}
	outNF, e1 := nf.Of(es2, nf.Options{})
	if e1 != nil || nf.Diff(inNF, outNF) != "" {
		c.Violation("cte->cbe:data-changed("+firstDiffKinds(inNF, outNF)+"):"+cls, fmt.Sprintf("CTE %q converts to CBE % x carrying different data: %s", clipS(string(text)), clipB(bin), nf.Diff(inNF, outNF)), w)
	}
}

// short strings over an alphabet, all lengths <= n
func allStrings(alpha []string, n int, f func(s string)) {
	var rec func(prefix string, k int)
	rec = func(prefix string, k int) {
		f(prefix)
		if k == n {
			return
		}
		for _, a := range alpha {
			rec(prefix+a, k+1)
		}
	}
	rec("", 0)
}

func c03Run(c *fx.Ctx) {
	// (a) the C01 corpus encoded as CBE, and the C02 corpus encoded as CTE
	o := corpusOpts{refMaxLen: c.Pick(6, 8), structDepth: c.Pick(5, 6), floatStride: c.Pick(32, 4), latlong: 20, arrayFullMax: c.Pick(3, 5), padding: false}
	var subset [][]byte
	forEachCorpusDoc(c, o, func(doc []ev.E, cls string) {
		if _, err := codec.ValidateEvents(doc, nil); err != nil {
			return
		}
		if bin, _, err := codec.Encode(codec.CBE, doc, nil, true); err == nil {
			convertCBE(c, bin, cls)
			if len(bin) <= 24 && c.Index()%7 == 0 && len(subset) < c.Pick(40, 300) {
				subset = append(subset, bin)
			}
			c.Distinct("nontrivial", string(bin))
			if c.Index()%301 == 0 {
				c.Sample(fmt.Sprintf("%s: CBE % x <-> CTE", cls, clipB(bin)))
			}
		}
		if text, _, err := codec.Encode(codec.CTE, doc, nil, true); err == nil {
			convertCTE(c, text, cls)
		}
	})
	// (b) every single-byte substitution at every position of a subset of those documents (kept when still accepted)
	for _, bin := range subset {
		for pos := 2; pos < len(bin); pos++ {
			orig := bin[pos]
			for v := 0; v < 256; v++ {
				if byte(v) == orig {
					continue
				}
				m := append([]byte{}, bin...)
				m[pos] = byte(v)
				c.Add("mutants_tried", 1)
				convertCBE(c, m, "mutant")
			}
		}
	}
	// (c) crafted values the binary side can carry but the text side may not
	mtAlpha := []string{"a", "A", "0", "/", "+", ".", "-", "_", "{", "[", "\"", " ", "é"}
	if c.Take() {
		allStrings(mtAlpha, c.Pick(2, 3), func(s string) {
			doc := []ev.E{ev.EBD(), ev.EV(0), ev.EMedia(s, []byte{1}), ev.EED()}
			if bin, _, err := codec.Encode(codec.CBE, doc, nil, true); err == nil {
				convertCBE(c, bin, "media-type:inside-cte-grammar:"+strClass(s))
			}
		})
	}
	areaAlpha := []string{"a", "A", "0", "/", "_", "-", "+", " ", ".", ":", "é", "[", "\""}
	if c.Take() {
		allStrings(areaAlpha, c.Pick(2, 3), func(s string) {
			if s == "" {
				return
			}
			doc := []ev.E{ev.EBD(), ev.EV(0), ev.ETime(compact_time.NewTime(1, 2, 3, 0, compact_time.TZAtAreaLocation(s))), ev.EED()}
			if bin, _, err := codec.Encode(codec.CBE, doc, nil, true); err == nil {
				convertCBE(c, bin, "area-location:inside-cte-grammar:"+strClass(s))
			}
		})
	}
	if c.Take() {
		for _, ct := range []uint64{0, 1, 127, 128, 16383, 16384, 1 << 32, 1<<63 - 1, 1 << 63, 1<<64 - 1} {
			doc := []ev.E{ev.EBD(), ev.EV(0), ev.ECustomBin(ct, []byte{1, 2}), ev.EED()}
			if bin, _, err := codec.Encode(codec.CBE, doc, nil, true); err == nil {
				convertCBE(c, bin, "custom-type-code")
			}
		}
	}
	// bit arrays in two chunks of 1..9 bits each: a continued chunk may end inside a byte
	if c.Take() {
		for n1 := uint64(1); n1 <= 9; n1++ {
			for n2 := uint64(1); n2 <= 9; n2++ {
				d1 := []byte{0xff, 0x01}[:(n1+7)/8]
				d2 := []byte{0x55, 0x01}[:(n2+7)/8]
				if n1%8 != 0 {
					d1 = append([]byte{}, d1...)
					d1[len(d1)-1] &= byte(1<<(n1%8)) - 1
				}
				if n2%8 != 0 {
					d2 = append([]byte{}, d2...)
					d2[len(d2)-1] &= byte(1<<(n2%8)) - 1
				}
				doc := []ev.E{ev.EBD(), ev.EV(0), ev.EABegin(events.ArrayTypeBit), ev.EChunk(n1, true), ev.EData(d1), ev.EChunk(n2, false), ev.EData(d2), ev.EED()}
				if bin, _, err := codec.Encode(codec.CBE, doc, nil, true); err == nil {
					c.Add("bit_chunk_cases", 1)
					convertCBE(c, bin, "bit-array-two-chunks")
				}
			}
		}
	}
	// identifiers: every code point accepted by the validator must be writable and readable in CTE
	const block = 0x800
	for base := 0; base < 0x110000; base += block {
		if !c.Take() {
			continue
		}
		for cp := base; cp < base+block; cp++ {
			if cp >= 0xD800 && cp <= 0xDFFF {
				continue
			}
			id := "a" + string(rune(cp))
			doc := []ev.E{ev.EBD(), ev.EV(0), ev.EList(), ev.EMarker(id), ev.ENull(), ev.ERef(id), ev.EEnd(), ev.EED()}
			if bin, _, err := codec.Encode(codec.CBE, doc, nil, true); err == nil {
				c.Add("identifier_cases", 1)
				convertCBE(c, bin, "identifier-char")
			}
		}
	}
}

// the CTE lexer's token classes (CTELexer.g4: TZ_AREALOC, MEDIA_TYPE)
var areaLocRe = regexp.MustCompile(`^[A-Z][a-zA-Z0-9_\-./+]*$`)
var mediaTypeRe = regexp.MustCompile("^[a-zA-Z][a-zA-Z0-9!#$%&'*+.^_`|~{}\\-]*/[a-zA-Z0-9!#$%&'*+.^_`|~{}\\-]+$")

func strClass(s string) string {
	seen := map[string]bool{}
	var out []string
	for _, r := range s {
		k := charClass(r)
		if r >= 'a' && r <= 'z' || r >= 'A' && r <= 'Z' {
			k = "letter"
		} else if r >= '0' && r <= '9' {
			k = "digit"
		}
		if !seen[k] {
			seen[k] = true
			out = append(out, k)
		}
	}
	if len(out) == 0 {
		return "empty"
	}
	return strings.Join(out, "+")
}

func init() {
	register(&fx.Check{
		ID:    "C03",
		Level: "exploration",
		Rule: "direction 1 (CBE->CTE->CBE): CBE encodings of the C01 corpus, every single-byte substitution at every position of a subset of them (kept when the CBE decoder+rules still accepts), and crafted values the binary side can carry " +
			"(every media type / area-location string of length <=2/3 over a 13-character class alphabet, custom type codes at ULEB boundaries, every code point in an identifier); direction 2 (CTE->CBE): CTE encodings of the corpus; " +
			"each conversion must be accepted by the other decoder+rules and carry the same normal form; distinct_nontrivial = distinct CBE corpus documents",
		Assumptions: []string{"purely differential (no model)", "custom text is excluded from direction 2 (CBE cannot carry it)"},
		TrustedBase: []string{"harness normal form internal/nf"},
		Guards:      map[string]int64{"cbe_to_cte_cases": 20000, "cte_to_cbe_cases": 20000, "identifier_cases": 50000},
		Run:         c03Run,
		Replay: func(raw json.RawMessage) string {
			var w c03Witness
			if err := json.Unmarshal(raw, &w); err != nil {
				return err.Error()
			}
			c := fx.NewScratchCtx()
			if strings.HasPrefix(w.Dir, "cbe") {
				convertCBE(c, w.CBE, "replay")
			} else {
				convertCTE(c, []byte(w.CTE), "replay")
			}
			return c.FirstViolation()
		},
	})
}
