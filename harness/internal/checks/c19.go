package checks

import (
	"encoding/json"
	"fmt"
	"math"
	"math/big"
	"reflect"

	"github.com/cockroachdb/apd/v2"
	compact_float "github.com/kstenerud/go-compact-float"
	"github.com/kstenerud/go-concise-encoding/builder"
	"github.com/kstenerud/go-concise-encoding/cbe"
	"github.com/kstenerud/go-concise-encoding/configuration"
	"github.com/kstenerud/go-concise-encoding/cte"
	"verif/harness/internal/codec"
	"verif/harness/internal/ev"
	"verif/harness/internal/fx"
	"verif/harness/internal/gen"
)

type c19Witness struct {
	Source ev.E   `json:"source_event"`
	Dest   string `json:"destination"`
	Path   string `json:"path"` // builder | cbe | cte
	Shape  string `json:"shape"`
}

type c19Dest struct {
	name     string
	template interface{}
	isFloat  bool
	isBigF   bool
}

func c19Dests() []c19Dest {
	return []c19Dest{
		{"int8", int8(0), false, false}, {"int16", int16(0), false, false}, {"int32", int32(0), false, false}, {"int64", int64(0), false, false}, {"int", int(0), false, false},
		{"uint8", uint8(0), false, false}, {"uint16", uint16(0), false, false}, {"uint32", uint32(0), false, false}, {"uint64", uint64(0), false, false}, {"uint", uint(0), false, false},
		{"float32", float32(0), true, false}, {"float64", float64(0), true, false},
		{"big.Int", big.Int{}, false, false}, {"*big.Int", (*big.Int)(nil), false, false},
		{"big.Float", big.Float{}, false, true}, {"*big.Float", (*big.Float)(nil), false, true},
	}
}

func c19Sources() []ev.E {
	var out []ev.E
	for _, v := range gen.IntValues() {
		out = append(out, gen.IntForms(v)...)
	}
	// more integers at every destination width boundary
	for _, k := range []uint{7, 8, 15, 16, 24, 31, 32, 53, 63, 64} {
		for _, d := range []int64{-1, 0, 1} {
			p := new(big.Int).Add(gen.Pow2(k), big.NewInt(d))
			out = append(out, gen.IntForms(p)...)
			out = append(out, gen.IntForms(new(big.Int).Neg(p))...)
		}
	}
	out = append(out, ev.ENInt(0))
	for _, f := range []float64{0, 1, -1, 2, 127, 128, -128, -129, 255, 256, 65535, 65536, 16777216, 16777217, 1 << 31, -(1 << 31), 1 << 32, 9007199254740992, 9007199254740994, 9223372036854775808, -9223372036854775808,
		18446744073709551616, 1e19, 1e30, 1e300, 0.5, 1.5, -0.5, 0.1, 255.5, 1e-9, -1e-300, math.Copysign(0, -1), math.Inf(1), math.Inf(-1), math.NaN(), 4.9e-324, 3.4028234663852886e38, 3.5e38} {
		out = append(out, ev.EFloat(f))
	}
	out = append(out, ev.ENaN(true), ev.ENaN(false))
	for _, d := range []compact_float.DFloat{compact_float.DFloatValue(0, 5), compact_float.DFloatValue(0, -5), compact_float.DFloatValue(-1, 15), compact_float.DFloatValue(-1, 50), compact_float.DFloatValue(1, 15),
		compact_float.DFloatValue(19, 1), compact_float.DFloatValue(20, 1), compact_float.DFloatValue(2, 123456789012345678), compact_float.DFloatValue(-3, 1), compact_float.DFloatValue(0, 255), compact_float.DFloatValue(0, 256),
		compact_float.DFloatValue(0, math.MaxInt64), compact_float.DFloatValue(0, -math.MaxInt64), compact_float.DFloatValue(400, 1), compact_float.DFloatValue(-400, 1), compact_float.NegativeZero(), compact_float.Infinity(), compact_float.QuietNaN()} {
		out = append(out, ev.EDFloat(d))
	}
	for _, s := range []string{"5", "-5", "0.5", "1.50", "1E+30", "-1E+30", "18446744073709551615", "18446744073709551616", "-18446744073709551615", "9223372036854775807", "9223372036854775808", "-9223372036854775808", "-9223372036854775809",
		"255", "256", "-128", "-129", "1E-30", "-0", "NaN", "Infinity", "-Infinity", "123456789012345678901234567890", "0.1",
		// plain big integers spelled as decimals, every digit count 20..31, all nines and ...7 (need the top bit of the estimated precision)
		"99999999999999999999", "999999999999999999999", "9999999999999999999999", "99999999999999999999999", "999999999999999999999999", "9999999999999999999999997", "99999999999999999999999999",
		"999999999999999999999999997", "9999999999999999999999999999", "99999999999999999999999999999", "999999999999999999999999999999", "-9999999999999999999999999999997"} {
		d, _, err := apd.NewFromString(s)
		if err == nil {
			out = append(out, ev.EBigDec(d))
		}
	}
	for _, prec := range []uint{53, 200} {
		for _, s := range []string{"5", "-5", "1.5", "0.1", "1180591620717411303424", "-1180591620717411303424", "18446744073709551615", "-9223372036854775808", "255", "256", "1e-40"} {
			f, _, err := big.ParseFloat(s, 10, prec, big.ToNearestEven)
			if err == nil {
				out = append(out, ev.EBigFloat(f))
			}
		}
	}
	out = append(out, ev.EBigFloat(new(big.Float).SetInf(false)), ev.EBigFloat(new(big.Float).SetInf(true)))
	return out
}

func isIntegerEvent(e ev.E) bool {
	switch e.K {
	case ev.PInt, ev.NInt, ev.Int, ev.BigInt:
		return true
	}
	return false
}

// c19Shapes: where the number sits relative to the template.
type c19Shape struct {
	name     string
	wrap     func(e ev.E) []ev.E
	template func(t interface{}) interface{}
	extract  func(v reflect.Value) reflect.Value
}

func deref(v reflect.Value) reflect.Value {
	for v.IsValid() && (v.Kind() == reflect.Ptr || v.Kind() == reflect.Interface) && !specialPtr(v) {
		if v.IsNil() {
			return reflect.Value{}
		}
		v = v.Elem()
	}
	return v
}

// refShape: the value is marked in a field of type wide and reaches the destination field through a local reference
// (backward, or forward when the destination field comes first in the document).
func refShape(name string, wide reflect.Type, forward bool) c19Shape {
	doc := func(es ...ev.E) []ev.E { return append(append([]ev.E{ev.EBD(), ev.EV(0)}, es...), ev.EED()) }
	return c19Shape{name,
		func(e ev.E) []ev.E {
			if forward {
				return doc(ev.EMap(), ev.EStr("n"), ev.ERef("a"), ev.EStr("w"), ev.EMarker("a"), e, ev.EEnd())
			}
			return doc(ev.EMap(), ev.EStr("w"), ev.EMarker("a"), e, ev.EStr("n"), ev.ERef("a"), ev.EEnd())
		},
		func(t interface{}) interface{} {
			st := reflect.StructOf([]reflect.StructField{{Name: "W", Type: wide}, {Name: "N", Type: reflect.TypeOf(t)}})
			return reflect.New(st).Elem().Interface()
		},
		func(v reflect.Value) reflect.Value {
			v = deref(v)
			if !v.IsValid() || v.Kind() != reflect.Struct {
				return reflect.Value{}
			}
			return v.Field(1)
		}}
}

func c19Shapes() []c19Shape {
	doc := func(es ...ev.E) []ev.E { return append(append([]ev.E{ev.EBD(), ev.EV(0)}, es...), ev.EED()) }
	var iface interface{}
	return []c19Shape{
		refShape("ref-from-int64-field", reflect.TypeOf(int64(0)), false), refShape("ref-from-uint64-field", reflect.TypeOf(uint64(0)), false),
		// (no float64 carrier: what a reference to a value that was rounded into a float field designates is not fixed by the statement)
		refShape("ref-from-interface-field", reflect.TypeOf(&iface).Elem(), false),
		refShape("ref-from-bigint-field", reflect.TypeOf((*big.Int)(nil)), false),
		refShape("forward-ref-to-int64-field", reflect.TypeOf(int64(0)), true), refShape("forward-ref-to-uint64-field", reflect.TypeOf(uint64(0)), true),
		refShape("forward-ref-to-interface-field", reflect.TypeOf(&iface).Elem(), true),
		{"top", func(e ev.E) []ev.E { return doc(e) }, func(t interface{}) interface{} { return t }, func(v reflect.Value) reflect.Value { return v }},
		{"slice-element", func(e ev.E) []ev.E { return doc(ev.EList(), e, ev.EEnd()) },
			func(t interface{}) interface{} {
				return reflect.MakeSlice(reflect.SliceOf(reflect.TypeOf(t)), 0, 0).Interface()
			},
			func(v reflect.Value) reflect.Value {
				v = deref(v)
				if !v.IsValid() || v.Kind() != reflect.Slice || v.Len() != 1 {
					return reflect.Value{}
				}
				return v.Index(0)
			}},
		{"struct-field", func(e ev.E) []ev.E { return doc(ev.EMap(), ev.EStr("n"), e, ev.EEnd()) },
			func(t interface{}) interface{} {
				st := reflect.StructOf([]reflect.StructField{{Name: "N", Type: reflect.TypeOf(t)}})
				return reflect.New(st).Elem().Interface()
			},
			func(v reflect.Value) reflect.Value {
				v = deref(v)
				if !v.IsValid() || v.Kind() != reflect.Struct {
					return reflect.Value{}
				}
				return v.Field(0)
			}},
		{"map-value", func(e ev.E) []ev.E { return doc(ev.EMap(), ev.EStr("n"), e, ev.EEnd()) },
			func(t interface{}) interface{} {
				return reflect.MakeMap(reflect.MapOf(reflect.TypeOf(""), reflect.TypeOf(t))).Interface()
			},
			func(v reflect.Value) reflect.Value {
				v = deref(v)
				if !v.IsValid() || v.Kind() != reflect.Map {
					return reflect.Value{}
				}
				return v.MapIndex(reflect.ValueOf("n"))
			}},
	}
}

func c19Case(c *fx.Ctx, src ev.E, d c19Dest, sh c19Shape, path string) {
	srcNode, ok := scalarNode(src)
	if !ok || srcNode.kind != tNum {
		return
	}
	if d.isFloat && !isIntegerEvent(src) {
		return // float -> float conversions are outside the statement
	}
	tpl := sh.template(d.template)
	doc := sh.wrap(src)
	cfg := configuration.New()
	var got interface{}
	var err error
	perr := safeCall(func() error {
		switch path {
		case "builder":
			b := builder.NewSession(nil, cfg).NewBuilderFor(tpl)
			if _, e := ev.TryDriveAll(b, doc); e != nil {
				err = e
				return nil
			}
			got = b.GetBuiltObject()
		case "cbe", "cte":
			f := fmtOf(path)
			enc, _, e := codec.Encode(f, doc, nil, true)
			if e != nil {
				err = fmt.Errorf("not encodable")
				return nil
			}
			if f == codec.CBE {
				got, err = cbe.NewUnmarshaler(cfg).UnmarshalFromDocument(enc, tpl)
			} else {
				got, err = cte.NewUnmarshaler(cfg).UnmarshalFromDocument(enc, tpl)
			}
		}
		return nil
	})
	c.Add("evaluations", 1)
	w := c19Witness{Source: src, Dest: d.name, Path: path, Shape: sh.name}
	sig := fmt.Sprintf("%s:%s->%s:%s", path, valueClass(src), d.name, sh.name)
	if perr != nil {
		c.Add("rejected_cases", 1) // an escaping panic is C07's subject; for C19 it is "not stored"
		return
	}
	if err != nil {
		c.Add("rejected_cases", 1)
		return
	}
	c.Add("accepted_cases", 1)
	v := sh.extract(reflect.ValueOf(got))
	v = deref(v)
	if !v.IsValid() {
		c.Violation(sig+":accepted-but-nothing-stored", fmt.Sprintf("%s into %s (%s, via %s) returns no error and no value (%s)", src.Key(), d.name, sh.name, path, clipS(valueKey(got))), w)
		return
	}
	gotNode, ok := looseNum(v)
	if !ok {
		c.Violation(sig+":stored-value-is-not-a-number", fmt.Sprintf("%s into %s (%s, via %s) stored %s", src.Key(), d.name, sh.name, path, show(v)), w)
		return
	}
	equal := numEqual(srcNode, gotNode)
	if !equal && d.isBigF && srcNode.special == "" && gotNode.special == "" {
		// decimal sources travel into a binary big.Float: exact up to the rounding its precision implies
		prec := bigFloatPrec(v)
		a := new(big.Float).SetPrec(prec + 64).SetRat(srcNode.num)
		b := new(big.Float).SetPrec(prec).SetRat(gotNode.num)
		equal = !isIntegerEvent(src) && bigFloatClose(b, a.SetPrec(prec))
		if src.K == ev.BigDecimal && src.BDec != nil && src.BDec.Exponent == 0 {
			equal = false // a plain integer coefficient: nothing justifies rounding it
		}
	}
	if !equal && srcNode.special == "-0" && gotNode.special == "" && gotNode.num.Sign() == 0 {
		equal = true // integer destinations have no negative zero: the mathematical value is 0
	}
	if !equal {
		c.Violation(sig+":stored-value-differs", fmt.Sprintf("%s into %s (%s, via %s) returns no error but stores %s (source value %s)", src.Key(), d.name, sh.name, path, gotNode, srcNode), w)
		return
	}
	c.Distinct("nontrivial", sig+src.Key())
	if c.Index()%211 == 0 {
		c.Sample(fmt.Sprintf("%s into %s (%s, via %s) stored exactly %s", src.Key(), d.name, sh.name, path, gotNode))
	}
}

func init() {
	register(&fx.Check{
		ID:    "C19",
		Level: "exploration",
		Rule: "full product: ~700 numeric source events (every integer of the C01 alphabet plus 2^k±1 at every destination width, in every event form pint/nint/int/bigint; binary floats incl. integral values at width boundaries, fractions, ±0, ±inf, NaN; decimal floats; big decimals; big floats) " +
			"× 16 destinations (int8..int64, int, uint8..uint64, uint, float32, float64, big.Int, *big.Int, big.Float, *big.Float; float destinations for integer sources only) × 4 positions (top level, slice element, struct field, map value) × 3 delivery paths (events straight into the builder, CBE document, CTE document); " +
			"oracle: an error, or the stored value equals the source value exactly (exact rationals); distinct_nontrivial = distinct accepted-and-exact cases",
		Assumptions: []string{"non-integer sources into big.Float are exact up to the rounding the destination precision implies (integer sources must be exact)", "-0 into an integer destination may be stored as 0", "float-to-float conversions are outside the statement"},
		TrustedBase: []string{"math/big rationals", "harness scalar model (gotree.go scalarNode)"},
		Guards:      map[string]int64{"accepted_cases": 15000, "rejected_cases": 12000},
		Run: func(c *fx.Ctx) {
			c19Pairs(c)
			srcs := c19Sources()
			for _, src := range srcs {
				for _, d := range c19Dests() {
					if !c.Take() {
						continue
					}
					for _, sh := range c19Shapes() {
						for _, p := range []string{"builder", "cbe", "cte"} {
							if sh.name != "top" && p != "builder" && !c.Thorough() && c.Index()%4 != 0 {
								continue
							}
							c19Case(c, src, d, sh, p)
						}
					}
				}
			}
		},
		Replay: func(raw json.RawMessage) string {
			var w c19Witness
			if err := json.Unmarshal(raw, &w); err != nil {
				return err.Error()
			}
			c := fx.NewScratchCtx()
			for _, d := range c19Dests() {
				for _, sh := range c19Shapes() {
					if d.name == w.Dest && sh.name == w.Shape {
						c19Case(c, w.Source, d, sh, w.Path)
					}
				}
			}
			return c.FirstViolation()
		},
	})
}
