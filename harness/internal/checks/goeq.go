package checks

import (
	"bytes"
	"fmt"
	"math"
	"math/big"
	"net/url"
	"reflect"
	"time"

	"github.com/cockroachdb/apd/v2"
	compact_float "github.com/kstenerud/go-compact-float"
	compact_time "github.com/kstenerud/go-compact-time"
	"github.com/kstenerud/go-concise-encoding/types"
	"verif/harness/internal/ev"
)

// goEqual implements C04's equality between the original value and the unmarshaled one: nil and empty slices/maps are
// alike, times and big numbers compare by value, NaN equals NaN, and values held in interface{} positions compare by
// content (the dynamic Go type of a number or container cannot survive an untyped build).
func goEqual(want, got reflect.Value, path string) string {
	if !want.IsValid() || !got.IsValid() {
		if !want.IsValid() && !got.IsValid() {
			return ""
		}
		if !want.IsValid() && isNilish(got) || !got.IsValid() && isNilish(want) {
			return ""
		}
		return fmt.Sprintf("%s: one side is nil: want %s got %s", path, show(want), show(got))
	}
	if want.Type() != got.Type() {
		// the builder hands back *T for struct and array templates
		if got.Kind() == reflect.Ptr && !got.IsNil() && got.Type().Elem() == want.Type() {
			return goEqual(want, got.Elem(), path)
		}
		return fmt.Sprintf("%s: type differs: want %s got %s", path, want.Type(), got.Type())
	}
	t := want.Type()
	switch t {
	case typTime:
		a, b := want.Interface().(time.Time), got.Interface().(time.Time)
		if !a.Equal(b) {
			return fmt.Sprintf("%s: time differs: want %v got %v", path, a, b)
		}
		_, oa := a.Zone()
		_, ob := b.Zone()
		if oa != ob {
			return fmt.Sprintf("%s: time zone offset differs: want %v got %v", path, a, b)
		}
		return ""
	case typCTime:
		a, b := want.Interface().(compact_time.Time), got.Interface().(compact_time.Time)
		if !timesEquivalent(a, b) {
			return fmt.Sprintf("%s: compact time differs: want %v got %v", path, a, b)
		}
		return ""
	case typBigInt:
		a, b := want.Interface().(big.Int), got.Interface().(big.Int)
		if a.Cmp(&b) != 0 {
			return fmt.Sprintf("%s: big.Int differs: want %s got %s", path, a.String(), b.String())
		}
		return ""
	case typBigF:
		a, b := want.Interface().(big.Float), got.Interface().(big.Float)
		if !bigFloatClose(&a, &b) {
			return fmt.Sprintf("%s: big.Float differs: want %s got %s", path, a.Text('g', 40), b.Text('g', 40))
		}
		return ""
	case typDec:
		a, b := want.Interface().(apd.Decimal), got.Interface().(apd.Decimal)
		if a.Cmp(&b) != 0 {
			return fmt.Sprintf("%s: decimal differs: want %s got %s", path, a.String(), b.String())
		}
		return ""
	case typDFloat:
		a, b := want.Interface().(compact_float.DFloat), got.Interface().(compact_float.DFloat)
		na, _ := scalarNodeDF(a)
		nb, _ := scalarNodeDF(b)
		if !numEqual(na, nb) {
			return fmt.Sprintf("%s: decimal float differs: want %v got %v", path, a, b)
		}
		return ""
	case typURL:
		a, b := want.Interface().(url.URL), got.Interface().(url.URL)
		if a.String() != b.String() {
			return fmt.Sprintf("%s: url differs: want %s got %s", path, a.String(), b.String())
		}
		return ""
	case typMedia:
		a, b := want.Interface().(types.Media), got.Interface().(types.Media)
		if a.MediaType != b.MediaType || !bytes.Equal(a.Data, b.Data) {
			return fmt.Sprintf("%s: media differs: want %v got %v", path, a, b)
		}
		return ""
	}
	switch t.Kind() {
	case reflect.Interface:
		// a typed nil pointer held in an interface is marshaled as null and comes back as a nil interface
		wnil := want.IsNil() || (want.Elem().Kind() == reflect.Ptr || want.Elem().Kind() == reflect.Map || want.Elem().Kind() == reflect.Slice) && want.Elem().IsNil() && want.Elem().Type() != typBytes
		gnil := got.IsNil() || (got.Elem().Kind() == reflect.Ptr || got.Elem().Kind() == reflect.Map) && got.Elem().IsNil()
		if wnil || gnil {
			if wnil && gnil {
				return ""
			}
			return fmt.Sprintf("%s: want %s got %s", path, show(want), show(got))
		}
		return looseEqual(want.Elem(), got.Elem(), path)
	case reflect.Ptr:
		if want.IsNil() || got.IsNil() {
			if want.IsNil() && got.IsNil() {
				return ""
			}
			return fmt.Sprintf("%s: pointer nil-ness differs: want %s got %s", path, show(want), show(got))
		}
		return goEqual(want.Elem(), got.Elem(), path)
	case reflect.Float32, reflect.Float64:
		a, b := want.Float(), got.Float()
		if a != a && b != b {
			return ""
		}
		if a != b || math.Signbit(a) != math.Signbit(b) {
			return fmt.Sprintf("%s: float differs: want %v got %v", path, a, b)
		}
		return ""
	case reflect.Slice, reflect.Array:
		if want.Len() != got.Len() {
			return fmt.Sprintf("%s: length differs: want %d got %d (%s vs %s)", path, want.Len(), got.Len(), show(want), show(got))
		}
		for i := 0; i < want.Len(); i++ {
			if msg := goEqual(want.Index(i), got.Index(i), fmt.Sprintf("%s[%d]", path, i)); msg != "" {
				return msg
			}
		}
		return ""
	case reflect.Map:
		if want.Len() != got.Len() {
			return fmt.Sprintf("%s: map size differs: want %d got %d", path, want.Len(), got.Len())
		}
		for _, k := range want.MapKeys() {
			gv := got.MapIndex(k)
			if !gv.IsValid() && k.Kind() == reflect.Interface {
				// interface{} contents compare by value: int64(300) comes back as uint64(300) from CBE
				for _, k2 := range got.MapKeys() {
					if looseEqual(k, k2, "") == "" {
						gv = got.MapIndex(k2)
						break
					}
				}
			}
			if !gv.IsValid() {
				return fmt.Sprintf("%s: key %v missing", path, k)
			}
			if msg := goEqual(want.MapIndex(k), gv, fmt.Sprintf("%s[%v]", path, k)); msg != "" {
				return msg
			}
		}
		return ""
	case reflect.Struct:
		for i := 0; i < t.NumField(); i++ {
			if t.Field(i).PkgPath != "" {
				continue
			}
			if msg := goEqual(want.Field(i), got.Field(i), path+"."+t.Field(i).Name); msg != "" {
				return msg
			}
		}
		return ""
	}
	if !reflect.DeepEqual(want.Interface(), got.Interface()) {
		return fmt.Sprintf("%s: want %s got %s", path, show(want), show(got))
	}
	return ""
}

func scalarNodeDF(d compact_float.DFloat) (*tnode, bool) {
	return scalarNode(ev.EDFloat(d))
}

func isNilish(v reflect.Value) bool {
	switch v.Kind() {
	case reflect.Ptr, reflect.Interface, reflect.Map, reflect.Slice:
		return v.IsNil() || (v.Kind() != reflect.Ptr && v.Kind() != reflect.Interface && v.Len() == 0)
	}
	return false
}

func show(v reflect.Value) string {
	if !v.IsValid() {
		return "<nil>"
	}
	return clipS(fmt.Sprintf("(%s)%v", v.Type(), v.Interface()))
}

// bigFloatClose: big.Float values travel as decimal text with the number of significant digits their precision
// implies, so equality is up to that decimal rounding (DESIGN §3 C01 level note).
func bigFloatClose(a, b *big.Float) bool {
	if a.IsInf() || b.IsInf() {
		return a.IsInf() && b.IsInf() && a.Signbit() == b.Signbit()
	}
	if a.Cmp(b) == 0 {
		return true
	}
	prec := a.Prec()
	if b.Prec() < prec {
		prec = b.Prec()
	}
	if prec > 64 {
		prec -= 8
	} else if prec > 8 {
		prec -= 4
	}
	diff := new(big.Float).SetPrec(512).Sub(a, b)
	diff.Abs(diff)
	lim := new(big.Float).SetPrec(512).Abs(a)
	lim.SetMantExp(lim, -int(prec))
	return diff.Cmp(lim) <= 0
}

// looseEqual compares two values found in interface{} positions by content.
func looseEqual(want, got reflect.Value, path string) string {
	for want.IsValid() && (want.Kind() == reflect.Interface || want.Kind() == reflect.Ptr) && !specialPtr(want) {
		if want.IsNil() {
			want = reflect.Value{}
			break
		}
		want = want.Elem()
	}
	for got.IsValid() && (got.Kind() == reflect.Interface || got.Kind() == reflect.Ptr) && !specialPtr(got) {
		if got.IsNil() {
			got = reflect.Value{}
			break
		}
		got = got.Elem()
	}
	if !want.IsValid() || !got.IsValid() {
		if !want.IsValid() && !got.IsValid() {
			return ""
		}
		return fmt.Sprintf("%s: want %s got %s", path, show(want), show(got))
	}
	if wt, ok := asCompactTime(want); ok {
		if gt, ok := asCompactTime(got); ok && timesEquivalent(wt, gt) {
			return ""
		}
		return fmt.Sprintf("%s: time differs: want %s got %s", path, show(want), show(got))
	}
	wn, wok := looseNum(want)
	gn, gok := looseNum(got)
	if wok && gok && (isBigFloat(want) || isBigFloat(got)) && wn.special == "" && gn.special == "" && wn.kind == tNum && gn.kind == tNum {
		prec := uint(53)
		if isBigFloat(want) {
			prec = bigFloatPrec(want)
		}
		a := new(big.Float).SetPrec(prec).SetRat(wn.num)
		b := new(big.Float).SetPrec(prec).SetRat(gn.num)
		if bigFloatClose(a, b) {
			return ""
		}
	}
	if wok || gok {
		if wok && gok && numEqual(wn, gn) {
			return ""
		}
		return fmt.Sprintf("%s: number differs: want %s got %s", path, show(want), show(got))
	}
	wk, gk := want.Kind(), got.Kind()
	if (wk == reflect.Slice || wk == reflect.Array) && (gk == reflect.Slice || gk == reflect.Array) {
		if want.Len() != got.Len() {
			return fmt.Sprintf("%s: length differs: want %s got %s", path, show(want), show(got))
		}
		for i := 0; i < want.Len(); i++ {
			if msg := looseEqual(want.Index(i), got.Index(i), fmt.Sprintf("%s[%d]", path, i)); msg != "" {
				return msg
			}
		}
		return ""
	}
	if wk == reflect.Map && gk == reflect.Map {
		if want.Len() != got.Len() {
			return fmt.Sprintf("%s: map size differs: want %s got %s", path, show(want), show(got))
		}
		for _, k := range want.MapKeys() {
			found := false
			for _, k2 := range got.MapKeys() {
				if looseEqual(k, k2, "") == "" {
					found = true
					if msg := looseEqual(want.MapIndex(k), got.MapIndex(k2), fmt.Sprintf("%s[%v]", path, k)); msg != "" {
						return msg
					}
					break
				}
			}
			if !found {
				return fmt.Sprintf("%s: key %v missing in %s", path, k, show(got))
			}
		}
		return ""
	}
	if want.Type() == got.Type() {
		return goEqual(want, got, path)
	}
	return fmt.Sprintf("%s: want %s got %s", path, show(want), show(got))
}

func specialPtr(v reflect.Value) bool {
	if v.Kind() != reflect.Ptr {
		return false
	}
	switch v.Type().Elem() {
	case typBigInt, typBigF, typDec:
		return true
	}
	return false
}

func looseNum(v reflect.Value) (*tnode, bool) {
	if n, ok := ratOfValue(v); ok {
		return n, true
	}
	if v.Kind() == reflect.Ptr && !v.IsNil() {
		switch x := v.Interface().(type) {
		case *big.Int:
			return &tnode{kind: tNum, num: new(big.Rat).SetInt(x)}, true
		case *big.Float:
			return scalarNode(ev.EBigFloat(x))
		case *apd.Decimal:
			return scalarNode(ev.EBigDec(x))
		}
	}
	switch v.Type() {
	case typDFloat:
		return scalarNodeDF(v.Interface().(compact_float.DFloat))
	case typBigInt:
		x := v.Interface().(big.Int)
		return &tnode{kind: tNum, num: new(big.Rat).SetInt(&x)}, true
	case typBigF:
		x := v.Interface().(big.Float)
		return scalarNode(ev.EBigFloat(&x))
	case typDec:
		x := v.Interface().(apd.Decimal)
		return scalarNode(ev.EBigDec(&x))
	}
	return nil, false
}

func isBigFloat(v reflect.Value) bool {
	return v.Type() == typBigF || v.Kind() == reflect.Ptr && v.Type().Elem() == typBigF
}

func bigFloatPrec(v reflect.Value) uint {
	if v.Type() == typBigF {
		x := v.Interface().(big.Float)
		return x.Prec()
	}
	if v.IsNil() {
		return 53
	}
	return v.Interface().(*big.Float).Prec()
}

func asCompactTime(v reflect.Value) (compact_time.Time, bool) {
	switch v.Type() {
	case typTime:
		return compact_time.AsCompactTime(v.Interface().(time.Time)), true
	case typCTime:
		return v.Interface().(compact_time.Time), true
	}
	return compact_time.Time{}, false
}
