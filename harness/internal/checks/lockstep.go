package checks

import (
	"fmt"

	"github.com/kstenerud/go-concise-encoding/configuration"
	"github.com/kstenerud/go-concise-encoding/rules"
	"verif/harness/internal/ev"
	"verif/harness/internal/fx"
	"verif/harness/internal/rulesmodel"
)

// lockstepResult describes one sequence executed event by event on a fresh real validator and the model.
type lockstepResult struct {
	accepted   bool // implementation accepted every event
	rejectedAt int  // index of the event the implementation rejected (-1 if none)
	err        error
	modelAt    int // index where the model rejects (-1 if never)
	recorded   []ev.E
}

// lockstep drives es on a fresh validator; compares verdicts per event with the model; reports violations with the
// given signature prefix. It stops at the first implementation rejection.
func lockstep(c *fx.Ctx, es []ev.E, cfg *configuration.Configuration, mcfg rulesmodel.Config, sigPrefix string, sigOf func(e ev.E, ctx string) string) lockstepResult {
	return lockstepW(c, nil, es, cfg, mcfg, sigPrefix, sigOf)
}

// lockstepW: as lockstep, on a validator that first received the warmup events and was then Reset() (instance reuse).
func lockstepW(c *fx.Ctx, warmup []ev.E, es []ev.E, cfg *configuration.Configuration, mcfg rulesmodel.Config, sigPrefix string, sigOf func(e ev.E, ctx string) string) lockstepResult {
	rec := &ev.Recorder{}
	if cfg == nil {
		cfg = configuration.New()
	}
	r := rules.NewRules(rec, cfg)
	if warmup != nil {
		ev.TryDriveAll(r, warmup)
		r.Reset()
		rec.Reset()
	}
	m := rulesmodel.New(mcfg)
	res := lockstepResult{accepted: true, rejectedAt: -1, modelAt: -1}
	for i, e := range es {
		ctxName := m.ContextName()
		err := ev.TryDrive(r, e)
		mv := m.Step(e)
		c.Add("transitions", 1)
		c.Add("traces_validated_against_impl", 1)
		if mv == rulesmodel.Reject && res.modelAt < 0 {
			res.modelAt = i
		}
		if err == nil && mv == rulesmodel.Reject {
			c.Violation(sigPrefix+"accepts-invalid("+m.Reason+"):"+sigOf(e, ctxName),
				fmt.Sprintf("validator ACCEPTS event %d (%s) of [%s] but it must be rejected there", i, e.Key(), ev.Join(es)),
				rwitness{Warmup: warmup, Events: es[:i+1]})
			res.recorded = rec.Events
			return res // model is dead beyond this point
		}
		if err != nil {
			res.accepted = false
			res.rejectedAt = i
			res.err = err
			if mv == rulesmodel.Accept {
				c.Violation(sigPrefix+"rejects-valid:"+sigOf(e, ctxName),
					fmt.Sprintf("validator REJECTS event %d (%s) of [%s]: %v — but the sequence is valid up to there", i, e.Key(), ev.Join(es), err),
					rwitness{Warmup: warmup, Events: es[:i+1]})
			}
			res.recorded = rec.Events
			return res
		}
		c.Distinct("states", m.Key())
	}
	res.recorded = rec.Events
	return res
}

// compositions calls f with every composition (ordered partition into positive parts) of n.
func compositions(n int, f func(parts []int)) {
	if n == 0 {
		f(nil)
		return
	}
	var parts []int
	var rec func(rem int)
	rec = func(rem int) {
		if rem == 0 {
			f(parts)
			return
		}
		for p := 1; p <= rem; p++ {
			parts = append(parts, p)
			rec(rem - p)
			parts = parts[:len(parts)-1]
		}
	}
	rec(n)
}

// compositionsMaxCuts: like compositions but with at most maxCuts cut points.
func compositionsMaxCuts(n, maxCuts int, f func(parts []int)) {
	if n == 0 {
		f(nil)
		return
	}
	var parts []int
	var rec func(rem int)
	rec = func(rem int) {
		if rem == 0 {
			f(parts)
			return
		}
		if len(parts) == maxCuts {
			parts = append(parts, rem)
			f(parts)
			parts = parts[:len(parts)-1]
			return
		}
		for p := 1; p <= rem; p++ {
			parts = append(parts, p)
			rec(rem - p)
			parts = parts[:len(parts)-1]
		}
	}
	rec(n)
}
