package checks

import (
	"fmt"

	"github.com/kstenerud/go-concise-encoding/ce/events"
	"verif/harness/internal/ev"
	"verif/harness/internal/fx"
	"verif/harness/internal/rulesmodel"
)

type arrSpec struct {
	name       string
	at         events.ArrayType
	begin      ev.E
	elemBytes  int // bytes per element; 0 = bit array
	stringLike bool
	keyable    bool
	whole      func(content []byte, n uint64) []ev.E // whole-array event forms
}

func arrSpecs() []arrSpec {
	var out []arrSpec
	strWhole := func(at events.ArrayType) func([]byte, uint64) []ev.E {
		return func(b []byte, n uint64) []ev.E {
			return []ev.E{ev.EArr(at, uint64(len(b)), b), ev.ESArr(at, string(b))}
		}
	}
	for _, at := range []events.ArrayType{events.ArrayTypeString, events.ArrayTypeResourceID, events.ArrayTypeReferenceRemote} {
		out = append(out, arrSpec{name: at.String(), at: at, begin: ev.EABegin(at), elemBytes: 1, stringLike: true,
			keyable: at != events.ArrayTypeReferenceRemote, whole: strWhole(at)})
	}
	out = append(out, arrSpec{name: "CustomText", at: events.ArrayTypeCustomText, begin: ev.ECBegin(events.ArrayTypeCustomText, 1), elemBytes: 1, stringLike: true,
		whole: func(b []byte, n uint64) []ev.E { return []ev.E{ev.ECustomText(1, string(b))} }})
	out = append(out, arrSpec{name: "CustomBinary", at: events.ArrayTypeCustomBinary, begin: ev.ECBegin(events.ArrayTypeCustomBinary, 1), elemBytes: 1,
		whole: func(b []byte, n uint64) []ev.E { return []ev.E{ev.ECustomBin(1, b)} }})
	out = append(out, arrSpec{name: "Media", at: events.ArrayTypeMedia, begin: ev.EMBegin("a/b"), elemBytes: 1,
		whole: func(b []byte, n uint64) []ev.E { return []ev.E{ev.EMedia("a/b", b)} }})
	num := func(at events.ArrayType) func([]byte, uint64) []ev.E {
		return func(b []byte, n uint64) []ev.E { return []ev.E{ev.EArr(at, n, b)} }
	}
	for _, at := range []events.ArrayType{events.ArrayTypeUint8, events.ArrayTypeUint16, events.ArrayTypeUint32, events.ArrayTypeUint64,
		events.ArrayTypeInt8, events.ArrayTypeInt16, events.ArrayTypeInt32, events.ArrayTypeInt64,
		events.ArrayTypeFloat16, events.ArrayTypeFloat32, events.ArrayTypeFloat64, events.ArrayTypeUID} {
		out = append(out, arrSpec{name: at.String(), at: at, begin: ev.EABegin(at), elemBytes: at.ElementSize() / 8, whole: num(at)})
	}
	for i, mt := range []string{"", "é/x", "\xff", "a\xc3"} {
		mt := mt
		out = append(out, arrSpec{name: fmt.Sprintf("MediaType%d", i), at: events.ArrayTypeMedia, begin: ev.EMBegin(mt), elemBytes: 1,
			whole: func(b []byte, n uint64) []ev.E { return []ev.E{ev.EMedia(mt, b)} }})
	}
	out = append(out, arrSpec{name: "Bit", at: events.ArrayTypeBit, begin: ev.EABegin(events.ArrayTypeBit), elemBytes: 0, whole: num(events.ArrayTypeBit)})
	return out
}

var utf8Contents = [][]byte{
	{}, []byte("a"), []byte("é"), []byte("€"), []byte("𝄞"), []byte("aé€"), []byte("é𝄞a"),
	{0xC3}, {0xE2, 0x82}, {0xF0, 0x9F, 0x92}, {0x80}, {0xFF}, {0xC0, 0x80}, {0xED, 0xA0, 0x80}, {'a', 0xC3}, {0xC3, 0x28},
}

func patternBytes(n int) []byte {
	b := make([]byte, n)
	for i := range b {
		b[i] = byte(0x11*(i+1)) | 1
	}
	return b
}

type arrCtx struct {
	name    string
	pre     []ev.E
	post    []ev.E
	keyOnly bool
}

func arrContexts() []arrCtx {
	return []arrCtx{
		{name: "top", pre: []ev.E{ev.EBD(), ev.EV(0)}, post: []ev.E{ev.EED()}},
		{name: "list", pre: []ev.E{ev.EBD(), ev.EV(0), ev.EList()}, post: []ev.E{ev.EEnd(), ev.EED()}},
		{name: "mapkey", pre: []ev.E{ev.EBD(), ev.EV(0), ev.EMap()}, post: []ev.E{ev.EPInt(1), ev.EEnd(), ev.EED()}, keyOnly: true},
	}
}

// chunkedForms enumerates event sequences (without begin) delivering content in every chunking × every data split.
// nElems elements of elemBytes bytes (bit arrays: elemBytes 0, content bytes for nElems bits).
// maxCuts bounds the total number of data-event cut points over the whole array (for long payloads). f gets the sequence and the chunking id.
func chunkedForms(sp arrSpec, content []byte, nElems int, maxCuts int, f func(chunkingID int, seq []ev.E)) {
	chunkID := 0
	emit := func(parts []int) {
		// byte ranges per chunk
		type chunk struct {
			elems int
			data  []byte
		}
		var chunks []chunk
		off := 0
		for _, p := range parts {
			nb := p * sp.elemBytes
			if sp.elemBytes == 0 {
				nb = (p + 7) / 8
			}
			chunks = append(chunks, chunk{p, content[off : off+nb]})
			off += nb
		}
		var seq []ev.E
		var rec func(ci int, budget int)
		rec = func(ci int, budget int) {
			if ci == len(chunks) {
				f(chunkID, append([]ev.E{}, seq...))
				return
			}
			ch := chunks[ci]
			seq = append(seq, ev.EChunk(uint64(ch.elems), ci < len(chunks)-1))
			base := len(seq)
			compositionsMaxCuts(len(ch.data), budget, func(dp []int) {
				seq = seq[:base]
				o := 0
				for _, d := range dp {
					seq = append(seq, ev.EData(ch.data[o:o+d]))
					o += d
				}
				used := len(dp) - 1
				if used < 0 {
					used = 0
				}
				rec(ci+1, budget-used)
			})
			seq = seq[:base-1]
		}
		if len(chunks) == 0 {
			f(chunkID, []ev.E{ev.EChunk(0, false)})
		} else {
			rec(0, maxCuts)
		}
		chunkID++
	}
	if sp.elemBytes == 0 {
		// bit arrays: non-final chunks are multiples of 8 bits
		var parts []int
		var rec func(rem int)
		rec = func(rem int) {
			parts = append(parts, rem)
			emit(parts)
			parts = parts[:len(parts)-1]
			for p := 8; p < rem; p += 8 {
				parts = append(parts, p)
				rec(rem - p)
				parts = parts[:len(parts)-1]
			}
		}
		if nElems == 0 {
			emit(nil)
		} else {
			rec(nElems)
		}
		return
	}
	compositions(nElems, emit)
}

func c11Run(c *fx.Ctx) {
	mcfg := rulesmodel.Config{}
	sig := func(sp arrSpec, cx arrCtx, variant string) func(e ev.E, ctx string) string {
		return func(e ev.E, ctx string) string {
			_, _ = cx, variant
			return fmt.Sprintf("%s:%s@%s", sp.name, e.K.String(), ctx)
		}
	}
	maxBytesFull := c.Pick(7, 10)
	for _, sp := range arrSpecs() {
		// contents
		type cont struct {
			b []byte
			n int
		}
		var contents []cont
		if sp.stringLike {
			for _, b := range utf8Contents {
				contents = append(contents, cont{b, len(b)})
			}
		} else if sp.elemBytes == 0 {
			for _, n := range []int{0, 1, 7, 8, 9, 16, 17, 24} {
				b := patternBytes((n + 7) / 8)
				if n%8 != 0 {
					b[len(b)-1] &= byte(1<<(uint(n)%8)) - 1
				}
				contents = append(contents, cont{b, n})
			}
		} else {
			maxElems := 3
			if sp.elemBytes == 1 {
				maxElems = 6
			}
			for n := 0; n <= maxElems; n++ {
				contents = append(contents, cont{patternBytes(n * sp.elemBytes), n})
			}
		}
		for _, cx := range arrContexts() {
			if cx.keyOnly && !sp.keyable {
				// non-keyable array types in a key position: begin must be rejected (one case)
				if c.Take() {
					c.Add("evaluations", 1)
					lockstep(c, append(append([]ev.E{}, cx.pre...), sp.begin), nil, mcfg, "", sig(sp, cx, "begin"))
				}
				continue
			}
			for _, ct := range contents {
				if !c.Take() {
					continue
				}
				wrap := func(seq []ev.E) []ev.E {
					out := append([]ev.E{}, cx.pre...)
					out = append(out, seq...)
					return append(out, cx.post...)
				}
				// whole-array forms
				for _, w := range sp.whole(ct.b, uint64(ct.n)) {
					c.Add("evaluations", 1)
					lockstep(c, wrap([]ev.E{w}), nil, mcfg, "", sig(sp, cx, "whole"))
				}
				maxCuts := 1 << 30
				if len(ct.b) > maxBytesFull {
					maxCuts = 3
				}
				// correct chunked forms: every chunking × every data split; verdict must not depend on the split
				verdicts := map[int]int{} // chunkingID -> rejectedAt-class of the first split (0 accepted, 1 rejected)
				first := map[int][]ev.E{}
				chunkedForms(sp, ct.b, ct.n, maxCuts, func(id int, seq []ev.E) {
					full := wrap(append([]ev.E{sp.begin}, seq...))
					c.Add("evaluations", 1)
					c.Distinct("nontrivial", ev.Join(full))
					r := lockstep(c, full, nil, mcfg, "", sig(sp, cx, "chunked"))
					v := 0
					if !r.accepted {
						v = 1
					}
					if old, ok := verdicts[id]; ok {
						if old != v {
							c.Violation("split-dependent-verdict",
								fmt.Sprintf("same chunking, different data-event split, different verdict: [%s] vs [%s] (second: accepted=%v err=%v)", ev.Join(first[id]), ev.Join(full), r.accepted, r.err),
								rwitness{Events: full})
						}
					} else {
						verdicts[id] = v
						first[id] = full
					}
					if r.accepted {
						c.Add("accepted_sequences", 1)
					} else {
						c.Add("rejected_sequences", 1)
					}
					// variants derived from this correct form (only for the un-split data form to keep the product finite: maxCuts 0 forms are those with one data event per chunk)
				})
				// variants on every chunking with one data event per chunk
				chunkedForms(sp, ct.b, ct.n, 0, func(id int, seq []ev.E) {
					variants := arrVariants(sp, seq)
					for _, vr := range variants {
						full := wrap(append([]ev.E{sp.begin}, vr.seq...))
						c.Add("evaluations", 1)
						c.Distinct("nontrivial", ev.Join(full))
						r := lockstep(c, full, nil, mcfg, "", sig(sp, cx, vr.name))
						if r.accepted {
							c.Add("accepted_sequences", 1)
						} else {
							c.Add("rejected_sequences", 1)
						}
					}
				})
				if c.Index()%7 == 0 {
					c.Sample(fmt.Sprintf("%s in %s content=%x", sp.name, cx.name, ct.b))
				}
			}
		}
	}
	c.Add("states", 0)
}

type arrVariant struct {
	name string
	seq  []ev.E
}

// arrVariants derives legal and illegal variations of a chunk/data sequence.
func arrVariants(sp arrSpec, seq []ev.E) []arrVariant {
	var out []arrVariant
	clone := func() []ev.E { return append([]ev.E{}, seq...) }
	insert := func(s []ev.E, i int, e ev.E) []ev.E {
		o := append([]ev.E{}, s[:i]...)
		o = append(o, e)
		return append(o, s[i:]...)
	}
	// positions of chunk headers
	var chunkPos []int
	for i, e := range seq {
		if e.K == ev.Chunk {
			chunkPos = append(chunkPos, i)
		}
	}
	// legal: zero-length non-final chunk before each chunk header
	for _, p := range chunkPos {
		out = append(out, arrVariant{"zero-chunk", insert(seq, p, ev.EChunk(0, true))})
	}
	// legal: all chunks non-final, closed by an empty final chunk
	{
		s := clone()
		for _, p := range chunkPos {
			s[p].B = true
		}
		if len(s) > 0 && !(len(chunkPos) == 1 && s[chunkPos[0]].U == 0) {
			s = append(s, ev.EChunk(0, false))
			out = append(out, arrVariant{"empty-final-chunk", s})
		}
	}
	// legal(?): zero-length data event inside each non-empty chunk, before and after its data
	for i, e := range seq {
		if e.K == ev.Data {
			out = append(out, arrVariant{"zero-data-before", insert(seq, i, ev.EData([]byte{}))})
		}
	}
	// illegal: last chunk declared one element longer (array stays open; following event must be rejected)
	if len(chunkPos) > 0 {
		s := clone()
		s[chunkPos[len(chunkPos)-1]].U++
		out = append(out, arrVariant{"declared-plus-one", s})
		// illegal: declared one shorter (data overflows the chunk) — only when it had at least 1 element
		if seq[chunkPos[len(chunkPos)-1]].U > 0 {
			s2 := clone()
			s2[chunkPos[len(chunkPos)-1]].U--
			out = append(out, arrVariant{"declared-minus-one", s2})
		}
		// illegal: final flag missing
		s3 := clone()
		s3[chunkPos[len(chunkPos)-1]].B = true
		out = append(out, arrVariant{"final-flag-missing", s3})
		// illegal: final flag early (on the first of several chunks)
		if len(chunkPos) > 1 {
			s4 := clone()
			s4[chunkPos[0]].B = false
			out = append(out, arrVariant{"final-flag-early", s4})
		}
	}
	// illegal: data after completion
	out = append(out, arrVariant{"data-after-end", append(clone(), ev.EData([]byte{1}))})
	// illegal: chunk header while a chunk is still open
	for i, e := range seq {
		if e.K == ev.Data && len(e.Data) >= 2 {
			s := append([]ev.E{}, seq[:i]...)
			s = append(s, ev.EData(e.Data[:1]), ev.EChunk(1, false))
			out = append(out, arrVariant{"chunk-inside-chunk", s})
			break
		}
	}
	return out
}

func init() {
	register(&fx.Check{
		ID:    "C11",
		Level: "model_checking",
		Rule: "for each of 19 array kinds × content alphabet (all UTF-8 shapes incl. invalid/truncated; 0..6 elements) × 3 contexts: every composition into chunks × every composition of each chunk into data events, " +
			"plus zero-length chunks/data events and the wrong variants (length ±1, final flag missing/early, data after end); each sequence runs event by event on a fresh real validator in lock-step with the reference automaton; " +
			"distinct_nontrivial = distinct event sequences executed",
		Assumptions: []string{"non-final bit-array chunks that are not a multiple of 8 bits are outside the statement and not generated",
			"invalid UTF-8 may be rejected anywhere from the data event that makes the content invalid to the end of the array (rejection window); a chunk ending inside a character must be rejected at its completing data event"},
		TrustedBase: []string{"harness reference automaton internal/rulesmodel (array frame, unicode/utf8)", "ev.Drive"},
		Guards:      map[string]int64{"accepted_sequences": 1000, "rejected_sequences": 1000},
		Run:         c11Run,
		Replay:      replayRules(true, false, rulesmodel.Config{}),
	})
}
