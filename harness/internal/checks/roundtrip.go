package checks

import (
	"encoding/json"
	"fmt"
	"math"
	"math/big"
	"strings"

	compact_float "github.com/kstenerud/go-compact-float"
	compact_time "github.com/kstenerud/go-compact-time"
	"github.com/kstenerud/go-concise-encoding/ce/events"
	"verif/harness/internal/codec"
	"verif/harness/internal/ev"
	"verif/harness/internal/fx"
	"verif/harness/internal/gen"
	"verif/harness/internal/nf"
)

type rtWitness struct {
	Format string `json:"format"`
	Events []ev.E `json:"events"`
	Doc    []byte `json:"encoded,omitempty"`
	Text   string `json:"encoded_text,omitempty"`
}

// valueClass is the discriminator of a value event used in signatures.
func valueClass(e ev.E) string {
	switch e.K {
	case ev.PInt, ev.NInt, ev.Int, ev.BigInt:
		var bits int
		switch e.K {
		case ev.PInt, ev.NInt:
			bits = 64 - leadingZeros(e.U)
		case ev.Int:
			v := e.I
			if v < 0 {
				v = -(v + 1)
			}
			bits = 64 - leadingZeros(uint64(v))
		case ev.BigInt:
			if e.Big == nil {
				return "bigint.nil"
			}
			bits = e.Big.BitLen()
		}
		cls := "<=63bit"
		if bits == 64 {
			cls = "64bit"
		} else if bits > 64 {
			cls = ">64bit"
		}
		return e.K.String() + "." + cls
	case ev.Float:
		switch {
		case e.F != e.F:
			return "f.nan"
		case math.IsInf(e.F, 0):
			return "f.inf"
		case e.F == 0:
			return "f.zero"
		case math.Abs(e.F) < 2.2250738585072014e-308:
			return "f.subnormal"
		case float64(float32(e.F)) == e.F:
			return "f.f32-exact"
		}
		return "f.f64"
	case ev.DFloat:
		if e.DF.IsSpecial() {
			return "df.special"
		}
		return "df"
	case ev.BigDecimal:
		if e.BDec == nil {
			return "bigdf.nil"
		}
		if e.BDec.Form != 0 {
			return "bigdf.special"
		}
		if e.BDec.Exponent < 0 && e.BDec.Coeff.Sign() != 0 && new(big.Int).Mod(&e.BDec.Coeff, big.NewInt(10)).Sign() == 0 {
			return "bigdf.fraction-with-trailing-zeros"
		}
		return "bigdf"
	case ev.BigFloat:
		if e.BF == nil {
			return "bigf.nil"
		}
		if e.BF.IsInf() {
			return "bigf.inf"
		}
		return "bigf"
	case ev.Time:
		return fmt.Sprintf("t.%s.%s", timeTypeName(e.T.Type), tzTypeName(e.T))
	case ev.Array, ev.StrArray, ev.ArrayBegin, ev.CustomBegin:
		return e.K.String() + "." + strings.ReplaceAll(e.AT.String(), " ", "")
	}
	return e.K.String()
}

func timeTypeName(t compact_time.TimeType) string {
	return [...]string{"date", "time", "timestamp"}[t]
}

func tzTypeName(t compact_time.Time) string {
	if t.Type == compact_time.TimeTypeDate {
		return "-"
	}
	return [...]string{"unset", "utc", "local", "area", "latlong", "offset"}[t.Timezone.Type]
}

func leadingZeros(v uint64) int {
	n := 0
	for i := 63; i >= 0; i-- {
		if v&(1<<uint(i)) != 0 {
			break
		}
		n++
	}
	return n
}

func tokenKind(tok string) string {
	if strings.HasPrefix(tok, "com(") {
		return "comment"
	}
	if strings.HasPrefix(tok, "n~") {
		return "wide-binary-float"
	}
	if i := strings.IndexByte(tok, ':'); i > 0 {
		k := tok[:i]
		if k == "n" {
			rest := tok[i+1:]
			switch rest {
			case "-0", "+inf", "-inf":
				return "n(" + rest + ")"
			}
		}
		if k == "arr" || k == "custom" {
			parts := strings.SplitN(tok, ":", 3)
			if len(parts) > 1 {
				return k + "(" + parts[1] + ")"
			}
		}
		return k
	}
	return tok
}

func firstDiffKinds(a, b []string) string {
	n := len(a)
	if len(b) < n {
		n = len(b)
	}
	for i := 0; i < n; i++ {
		if a[i] != b[i] {
			return tokenKind(a[i]) + "->" + tokenKind(b[i])
		}
	}
	if len(a) > len(b) {
		return tokenKind(a[n]) + "->missing"
	}
	if len(b) > len(a) {
		return "extra->" + tokenKind(b[n])
	}
	return ""
}

// roundTrip runs events -> rules -> encoder -> bytes -> decoder -> rules -> recorder and compares normal forms.
// It returns the encoded document (nil if none) so callers can chain further checks (idempotence, conversion).
func roundTrip(c *fx.Ctx, f codec.Format, doc []ev.E, cls string) (encoded []byte, out []ev.E, ok bool) {
	if idx, err := codec.ValidateEvents(doc, nil); err != nil {
		_ = idx
		c.Add("inputs_rejected_by_rules", 1)
		return nil, nil, false
	}
	c.Add("evaluations", 1)
	wit := func(enc []byte) rtWitness {
		w := rtWitness{Format: f.String(), Events: doc}
		if f == codec.CTE {
			w.Text = string(enc)
		} else {
			w.Doc = enc
		}
		return w
	}
	enc, stage, err := codec.Encode(f, doc, nil, true)
	if err != nil {
		c.Violation(fmt.Sprintf("%s:encode-fails(%s):%s", f, stage, cls), fmt.Sprintf("%s encoder fails on a rules-valid stream (%v): [%s]", f, err, clipS(ev.Join(doc))), wit(enc))
		return nil, nil, false
	}
	got, err := codec.Decode(f, enc, nil, true)
	if err != nil {
		c.Violation(fmt.Sprintf("%s:decode-fails:%s", f, cls), fmt.Sprintf("%s decoder+rules rejects encoder output (%v) for [%s] encoded as %s", f, err, clipS(ev.Join(doc)), showDoc(f, enc)), wit(enc))
		return enc, nil, false
	}
	inNF, e1 := nf.Of(doc, nf.Options{DropComments: f == codec.CBE, DropPadding: f == codec.CTE})
	outNF, e2 := nf.Of(got, nf.Options{})
	if e1 != nil || e2 != nil {
		c.Violation(fmt.Sprintf("%s:broken-stream:%s", f, cls), fmt.Sprintf("normal form error in=%v out=%v for [%s]", e1, e2, clipS(ev.Join(doc))), wit(enc))
		return enc, got, false
	}
	if d := nf.Diff(inNF, outNF); d != "" {
		c.Violation(fmt.Sprintf("%s:data-changed(%s):%s", f, firstDiffKinds(inNF, outNF), cls),
			fmt.Sprintf("%s round trip changes the data: %s; input [%s] encoded as %s decoded as [%s]", f, d, clipS(ev.Join(doc)), showDoc(f, enc), clipS(ev.Join(got))), wit(enc))
		return enc, got, false
	}
	return enc, got, true
}

func showDoc(f codec.Format, b []byte) string {
	if f == codec.CTE {
		return fmt.Sprintf("%q", clipS(string(b)))
	}
	return fmt.Sprintf("%x", clipB(b))
}

func clipS(s string) string {
	if len(s) > 300 {
		return s[:300] + "…"
	}
	return s
}

func clipB(b []byte) []byte {
	if len(b) > 100 {
		return b[:100]
	}
	return b
}

func replayRoundTrip(raw json.RawMessage) string {
	var w rtWitness
	if err := json.Unmarshal(raw, &w); err != nil {
		return "bad witness: " + err.Error()
	}
	f := codec.CBE
	if w.Format == "cte" {
		f = codec.CTE
	}
	c := fx.NewScratchCtx()
	roundTrip(c, f, w.Events, "replay")
	return c.FirstViolation()
}

// ---- corpus enumeration shared by C01/C02/C03/C06/C22/C23 ----

type corpusOpts struct {
	structDepth  int
	floatStride  int
	latlong      int
	arrayFullMax int  // arrays up to this many elements get every chunking × split
	padding      bool // inject padding at every accepted position (C01)
	comments     bool // inject comments at every CTE-expressible position (C02)
	customText   bool
	contextsAll  bool
	refMaxLen    int // reference family: containers up to this many elements (0 = none)
}

// forEachCorpusDoc enumerates the three sweeps. visit gets the document and a class string for signatures.
func forEachCorpusDoc(c *fx.Ctx, o corpusOpts, visit func(doc []ev.E, cls string)) {
	// 1. structure sweep
	var nodes int64
	alpha := gen.StructAlphabet()
	gen.DocSweep(alpha, o.structDepth, 2, c.Take, func(doc []ev.E) {
		c.Add("structure_docs", 1)
		visit(doc, "struct")
		if o.padding {
			for i := 2; i < len(doc); i++ {
				d := insertEvent(doc, i, ev.EPad())
				visit(d, "struct+padding")
			}
		}
		if o.comments {
			for i := 2; i < len(doc)-1; i++ {
				if !commentAllowedBefore(doc, i) {
					continue
				}
				visit(insertEvent(doc, i, ev.ECom(false, "c1")), "struct+comment")
				visit(insertEvent(doc, i, ev.ECom(true, "c2 /* n */ x")), "struct+comment")
			}
		}
	}, &nodes)
	c.Add("structure_nodes", nodes)

	// 2. value sweep
	scalars := gen.Scalars(o.floatStride, o.latlong)
	ctxs := gen.Contexts()
	for _, v := range scalars {
		if !c.Take() {
			continue
		}
		for ci, cx := range ctxs {
			if !o.contextsAll && ci > 1 && v.K == ev.Float && c.Index()%16 != 0 {
				continue // the binary float sweep goes through all contexts for every 16th value only
			}
			c.Add("value_docs", 1)
			visit(cx.Wrap(v), "value:"+valueClass(v))
		}
	}

	// 2b. pair sweep
	pairSweep(c, o, visit)

	// 2d. key pairs: every ordered pair of map keys whose text or numeric value coincides across types and delivery forms
	keyPairSweep(c, visit)

	// 3b. long arrays: payloads around the decoders' 64 KiB read-ahead / buffer growth steps
	longArraySweep(c, visit)

	// 2c. reference family: forward/backward references in containers of growing size
	for _, rd := range refFamily(o.refMaxLen) {
		if !c.Take() {
			continue
		}
		c.Add("reference_docs", 1)
		visit(rd.doc, "refs:"+familyClass(rd.name))
	}

	// 3. array sweep
	lengths := []int{}
	for n := 0; n <= 20; n++ {
		lengths = append(lengths, n)
	}
	lengths = append(lengths, 31, 32, 33, 40)
	actx := []gen.Context{ctxs[0], ctxs[1], ctxs[4], ctxs[3]}
	for _, k := range gen.ArrayKinds() {
		if k.AT == events.ArrayTypeCustomText && !o.customText {
			continue
		}
		for _, n := range lengths {
			if !c.Take() {
				continue
			}
			content := k.Content(n)
			if k.Text {
				n = len(content)
			}
			var forms [][]ev.E
			for _, w := range k.Whole(content, n) {
				forms = append(forms, []ev.E{w})
			}
			sp := arrSpec{name: k.Name, at: k.AT, begin: k.Begin(), elemBytes: k.ElemBytes, stringLike: k.Text}
			if n <= o.arrayFullMax {
				maxCuts := 1 << 30
				if len(content) > 8 {
					maxCuts = 2
				}
				chunkedForms(sp, content, n, maxCuts, func(id int, seq []ev.E) {
					if k.Text && !chunksOnCharBoundaries(seq) {
						return
					}
					forms = append(forms, append([]ev.E{sp.begin}, seq...))
				})
			} else {
				// single chunk, two chunks split in the middle (on an element/char boundary), and one mid-element data split
				forms = append(forms, []ev.E{sp.begin, ev.EChunk(uint64(n), false), ev.EData(content)})
				if k.ElemBytes > 0 && n >= 2 {
					h := n / 2
					hb := h * k.ElemBytes
					if k.Text {
						for hb > 0 && hb < len(content) && content[hb]&0xC0 == 0x80 {
							hb--
						}
						h = hb
					}
					if hb > 0 && hb < len(content) {
						forms = append(forms, []ev.E{sp.begin, ev.EChunk(uint64(h), true), ev.EData(content[:hb]), ev.EChunk(uint64(n-h), false), ev.EData(content[hb:])})
						forms = append(forms, []ev.E{sp.begin, ev.EChunk(uint64(n), false), ev.EData(content[:hb+1]), ev.EData(content[hb+1:])})
						forms = append(forms, []ev.E{sp.begin, ev.EChunk(uint64(n), false), ev.EData(content[:1]), ev.EData(content[1:])})
					}
				}
			}
			for _, cx := range actx {
				if cx.KeyOnly && k.AT != events.ArrayTypeString && k.AT != events.ArrayTypeResourceID {
					continue
				}
				for _, f := range forms {
					c.Add("array_docs", 1)
					visit(cx.Wrap(f...), "array:"+k.Name+":"+formName(f))
				}
			}
		}
	}
}

// keyAlphabet: keys that share their text or their numeric value with a key of another type, whole and chunked.
func keyAlphabet() [][]ev.E {
	one := func(e ev.E) []ev.E { return []ev.E{e} }
	chunked := func(at events.ArrayType, s string) []ev.E {
		return []ev.E{ev.EABegin(at), ev.EChunk(1, true), ev.EData([]byte(s[:1])), ev.EChunk(uint64(len(s)-1), false), ev.EData([]byte(s[1:]))}
	}
	return [][]ev.E{
		one(ev.EStr("a:b")), one(ev.ESArr(events.ArrayTypeResourceID, "a:b")), chunked(events.ArrayTypeString, "a:b"), chunked(events.ArrayTypeResourceID, "a:b"),
		one(ev.EStr("a:c")), one(ev.ESArr(events.ArrayTypeResourceID, "a:c")),
		one(ev.EStr("1")), one(ev.EPInt(1)), one(ev.EFloat(1)), one(ev.EDFloat(compact_float.DFloatValue(0, 1))), one(ev.EBigInt(big.NewInt(1))), one(ev.EDFloat(compact_float.DFloatValue(-1, 10))),
		one(ev.EStr("-1")), one(ev.ENInt(1)), one(ev.EFloat(-1)), one(ev.EInt(-1)),
		one(ev.EPInt(0)), one(ev.EFloat(0)), one(ev.EFloat(math.Copysign(0, -1))), one(ev.EDFloat(compact_float.DFloatValue(0, 0))), one(ev.EStr("0")),
		one(ev.ETrue()), one(ev.EFalse()), one(ev.EStr("true")),
		one(ev.ETime(compact_time.NewDate(2020, 1, 15))), one(ev.EStr("2020-01-15")),
		one(ev.EUID(gen.UIDValues()[2])), one(ev.EUID(gen.UIDValues()[1])),
		one(ev.EPInt(300)), one(ev.ENInt(300)), one(ev.EInt(-300)), one(ev.EStr("300")), one(ev.EPInt(1 << 32)), one(ev.ENInt(1 << 32)), one(ev.ENInt(1 << 63)), one(ev.EPInt(1 << 63)),
		one(ev.EBigInt(new(big.Int).Lsh(big.NewInt(1), 64))), one(ev.EBigInt(new(big.Int).Neg(new(big.Int).Lsh(big.NewInt(1), 64)))),
		one(ev.EPInt(1 << 53)), one(ev.EFloat(1 << 53)), one(ev.EPInt(1<<53 + 1)),
		one(ev.EFloat(0.5)), one(ev.EDFloat(compact_float.DFloatValue(-1, 5))), one(ev.EFloat(0.1)), one(ev.EDFloat(compact_float.DFloatValue(-1, 1))),
	}
}

func keyPairSweep(c *fx.Ctx, visit func(doc []ev.E, cls string)) {
	keys := keyAlphabet()
	for _, a := range keys {
		if !c.Take() {
			continue
		}
		for _, b := range keys {
			doc := []ev.E{ev.EBD(), ev.EV(0), ev.EMap()}
			doc = append(doc, a...)
			doc = append(doc, ev.EPInt(1))
			doc = append(doc, b...)
			doc = append(doc, ev.EPInt(2), ev.EEnd(), ev.EED())
			c.Add("key_pair_docs", 1)
			visit(doc, "keypair:"+valueClass(a[0])+"+"+valueClass(b[0]))
		}
	}
}

func longArraySweep(c *fx.Ctx, visit func(doc []ev.E, cls string)) {
	kinds := gen.ArrayKinds()
	for _, ki := range []int{0, 5, 7, 9, 17} { // String, Media, Uint8, Uint32, Float64
		k := kinds[ki]
		for _, nbytes := range []int{65535, 65536, 65537, 131080, 200001} {
			if !c.Take() {
				continue
			}
			n := nbytes / k.ElemBytes
			content := k.Content(n)
			if k.Text {
				n = len(content)
			}
			h := (n / 3) * k.ElemBytes
			if k.Text {
				for content[h]&0xC0 == 0x80 {
					h--
				}
			}
			he := h / k.ElemBytes
			forms := [][]ev.E{{k.Whole(content, n)[0]}, {k.Begin(), ev.EChunk(uint64(n), false), ev.EData(content)}}
			if len(content)-h > 70000 {
				forms = append(forms, []ev.E{k.Begin(), ev.EChunk(uint64(he), true), ev.EData(content[:h]), ev.EChunk(uint64(n-he), false), ev.EData(content[h : h+70000]), ev.EData(content[h+70000:])})
			}
			for _, f := range forms {
				c.Add("long_array_docs", 1)
				visit(append(append([]ev.E{ev.EBD(), ev.EV(0)}, f...), ev.EED()), "long-array:"+k.Name+":"+formName(f))
				visit(append(append([]ev.E{ev.EBD(), ev.EV(0), ev.EList(), ev.EPInt(1)}, f...), ev.EPInt(2), ev.EEnd(), ev.EED()), "long-array:"+k.Name+":"+formName(f))
			}
		}
	}
}

// pairSweep: every ordered pair of representatives as two consecutive list elements.
func pairSweep(c *fx.Ctx, o corpusOpts, visit func(doc []ev.E, cls string)) {
	reps := gen.Representatives()
	if o.customText {
		reps = append(reps, []ev.E{ev.ECustomText(4, "ct")}, []ev.E{ev.ECBegin(events.ArrayTypeCustomText, 4), ev.EChunk(3, true), ev.EData([]byte("fir")), ev.EChunk(2, false), ev.EData([]byte("st"))})
	}
	for _, a := range reps {
		if !c.Take() {
			continue
		}
		for _, b := range reps {
			doc := []ev.E{ev.EBD(), ev.EV(0), ev.EList()}
			doc = append(doc, a...)
			doc = append(doc, b...)
			doc = append(doc, ev.EEnd(), ev.EED())
			c.Add("pair_docs", 1)
			visit(doc, "pair:"+valueClass(a[0])+"+"+valueClass(b[0]))
		}
	}
}

func formName(f []ev.E) string {
	if len(f) == 1 {
		return f[0].K.String()
	}
	chunks := 0
	datas := 0
	for _, e := range f {
		if e.K == ev.Chunk {
			chunks++
		}
		if e.K == ev.Data {
			datas++
		}
	}
	switch {
	case chunks == 1 && datas <= 1:
		return "one-chunk"
	case chunks == 1:
		return "one-chunk-split-data"
	case datas <= chunks:
		return "multi-chunk"
	}
	return "multi-chunk-split-data"
}

func chunksOnCharBoundaries(seq []ev.E) bool {
	var acc []byte
	for i, e := range seq {
		if e.K == ev.Data {
			acc = append(acc, e.Data...)
		}
		if e.K == ev.Chunk && i > 0 || i == len(seq)-1 {
			if !validUTF8(acc) {
				return false
			}
		}
	}
	return true
}

func insertEvent(doc []ev.E, i int, e ev.E) []ev.E {
	out := make([]ev.E, 0, len(doc)+1)
	out = append(out, doc[:i]...)
	out = append(out, e)
	return append(out, doc[i:]...)
}

// commentAllowedBefore: positions where the CTE grammar can carry a comment (DESIGN §3 C01/C02): not between a marker
// and its value, not inside an array, not after the top-level value.
func commentAllowedBefore(doc []ev.E, i int) bool {
	if i <= 0 || i >= len(doc) {
		return false
	}
	prev := doc[i-1]
	if prev.K == ev.Marker {
		return false
	}
	if doc[i].K == ev.ED {
		return false
	}
	// inside chunked array?
	open := false
	for _, e := range doc[:i] {
		switch e.K {
		case ev.ArrayBegin, ev.MediaBegin, ev.CustomBegin:
			open = true
		case ev.Chunk:
			if !e.B && e.U == 0 {
				open = false
			}
		}
	}
	_ = open
	depth := 0
	for _, e := range doc[2:i] {
		switch e.K {
		case ev.List, ev.Map, ev.Edge, ev.Node, ev.Record, ev.RecordType:
			depth++
		case ev.End:
			depth--
		}
	}
	if depth == 0 {
		// top level: only before the top-level value (between record types is fine); never after it
		for _, e := range doc[2:i] {
			_ = e
		}
		// a top-level value has been completed iff the remaining events are only ED
		return doc[i].K != ev.ED
	}
	return true
}
