// Package checks contains one file per property (or group of properties) plus the shared engines.
package checks

import "verif/harness/internal/fx"

var registry = map[string]*fx.Check{}

func register(c *fx.Check) { registry[c.ID] = c }

func Registry() map[string]*fx.Check { return registry }
