package checks

import (
	"bytes"
	"encoding/json"
	"fmt"

	"github.com/kstenerud/go-concise-encoding/ce"
	"github.com/kstenerud/go-concise-encoding/ce/events"
	"github.com/kstenerud/go-concise-encoding/configuration"
	"github.com/kstenerud/go-concise-encoding/rules"
	"verif/harness/internal/codec"
	"verif/harness/internal/env"
	"verif/harness/internal/ev"
	"verif/harness/internal/fx"
)

type c27Witness struct {
	Doc   []byte   `json:"document"`
	Text  string   `json:"as_text"`
	Kind  string   `json:"kind"`
	Docs  [][]byte `json:"sequence,omitempty"`
	Entry string   `json:"entry,omitempty"`
}

func uleb(v uint64) []byte {
	var out []byte
	for {
		b := byte(v & 0x7f)
		v >>= 7
		if v != 0 {
			out = append(out, b|0x80)
		} else {
			return append(out, b)
		}
	}
}

func detectFormat(doc []byte) string {
	if len(doc) == 0 {
		return "none"
	}
	switch doc[0] {
	case 'c', 'C':
		return "cte"
	case 0x81:
		return "cbe"
	}
	return "none"
}

func headerClass(doc []byte) string {
	if len(doc) == 0 {
		return "empty"
	}
	switch {
	case doc[0] == 'c':
		return "c"
	case doc[0] == 'C':
		return "C"
	case doc[0] == 0x81:
		return "0x81"
	case doc[0] == ' ' || doc[0] == '\n' || doc[0] == '\t' || doc[0] == '\r':
		return "whitespace"
	}
	return "other"
}

// c27Differential: every universal entry point must behave exactly like the specific entry point of the detected format.
func c27Differential(c *fx.Ctx, doc []byte, kind string) {
	es := readEntries()
	pairs := []struct{ uni, cbe, cte int }{{2, 0, 1}, {5, 3, 4}}
	f := detectFormat(doc)
	for _, p := range pairs {
		for _, mode := range []string{"document", "reader", "reader-first-read-empty", "reader-one-byte-per-read", "reader-data-with-eof"} {
			run := func(e readEntry) (string, error) {
				switch mode {
				case "document":
					return guard(func() (string, error) { return e.memory(doc) })
				case "reader-first-read-empty": // a legal (0, nil) before the identifier byte arrives
					return guard(func() (string, error) {
						return e.stream(&env.Reader{Data: doc, Script: env.Script{At: map[int]env.Answer{0: {Kind: env.Zero}}}})
					})
				case "reader-one-byte-per-read":
					return guard(func() (string, error) {
						return e.stream(&env.Reader{Data: doc, Script: env.Script{Default: env.Answer{Kind: env.Short, K: 1}}})
					})
				case "reader-data-with-eof":
					return guard(func() (string, error) {
						return e.stream(&env.Reader{Data: doc, Script: env.Script{Default: env.Answer{Kind: env.DataEOF}}})
					})
				}
				return guard(func() (string, error) { return e.stream(bytes.NewReader(doc)) })
			}
			uo, ue := run(es[p.uni])
			c.Add("evaluations", 1)
			c.Add("differential_cases", 1)
			w := c27Witness{Doc: doc, Text: fmt.Sprintf("%q", clipS(string(doc))), Kind: kind, Entry: es[p.uni].name + "/" + mode}
			sig := fmt.Sprintf("%s(%s):header-%s", es[p.uni].name, mode, headerClass(doc))
			if ue != nil && len(ue.Error()) > 13 && ue.Error()[:13] == "ESCAPED PANIC" {
				c.Violation(sig+":panic-escapes", fmt.Sprintf("%s (%s) panics on %q: %v", es[p.uni].name, mode, clipS(string(doc)), ue), w)
				continue
			}
			if f == "none" {
				if ue == nil {
					c.Violation(sig+":accepts-unknown-format", fmt.Sprintf("%s (%s) accepts a document that starts with neither a CTE header letter nor the CBE signature: %q", es[p.uni].name, mode, clipS(string(doc))), w)
				}
				continue
			}
			spec := es[p.cbe]
			if f == "cte" {
				spec = es[p.cte]
			}
			so, se := run(spec)
			if (ue == nil) != (se == nil) {
				c.Violation(fmt.Sprintf("%s:verdict-differs-from-%s(universal-%s,specific-%s)", sig, f, errPresence(ue), errPresence(se)),
					fmt.Sprintf("%s (%s) on %q: err=%v but %s gives err=%v", es[p.uni].name, mode, clipS(string(doc)), ue, spec.name, se), w)
			} else if ue == nil && uo != so {
				c.Violation(fmt.Sprintf("%s:result-differs-from-%s", sig, f),
					fmt.Sprintf("%s (%s) on %q gives %s but %s gives %s", es[p.uni].name, mode, clipS(string(doc)), clipS(uo), spec.name, clipS(so)), w)
			}
			if se == nil {
				c.Add("accepted_by_specific", 1)
			}
		}
	}
	c.Distinct("nontrivial", string(doc))
	if len(doc) > 4 && c.Index()%37 == 0 {
		c.Sample(fmt.Sprintf("%s: %q detected as %s", kind, clipS(string(doc)), f))
	}
}

func decodeSpecific(doc []byte) (string, error) {
	f := codec.CBE
	if detectFormat(doc) == "cte" {
		f = codec.CTE
	}
	es, err := codec.Decode(f, doc, nil, true)
	return ev.Join(es), err
}

// c27Version: accepted iff the version is 0 or 1, and version 1 behaves exactly like version 0.
func c27Version(c *fx.Ctx, mk func(version string) []byte, fmtName string, versions []string, mustRejectAll bool) {
	base, baseErr := decodeSpecific(mk("0"))
	for _, v := range versions {
		doc := mk(v)
		got, err := decodeSpecific(doc)
		c.Add("evaluations", 1)
		c.Add("version_cases", 1)
		w := c27Witness{Doc: doc, Text: fmt.Sprintf("%q", clipS(string(doc))), Kind: "version:" + v}
		switch {
		case v == "0" || v == "1":
			if err != nil || baseErr != nil {
				c.Violation(fmt.Sprintf("%s:version-%s-rejected", fmtName, v), fmt.Sprintf("%s document with version %s is rejected: %v (%q)", fmtName, v, err, clipS(string(doc))), w)
			} else if got != base {
				c.Violation(fmt.Sprintf("%s:version-%s-differs-from-version-0", fmtName, v), fmt.Sprintf("%s version %s decodes as [%s], version 0 as [%s]", fmtName, v, clipS(got), clipS(base)), w)
			}
		default:
			if err == nil {
				c.Violation(fmt.Sprintf("%s:other-version-accepted", fmtName), fmt.Sprintf("%s document with version %s is accepted: %q -> [%s]", fmtName, v, clipS(string(doc)), clipS(got)), w)
			}
		}
	}
}

func c27Run(c *fx.Ctx) {
	cbeBodies := [][]byte{{0x7d}, {0x01}, {0x9a, 0x01, 0x9b}, {0x82, 'a', ' '}, {0x99, 0x81, 'k', 0x0a, 0x9b}}
	cteBodies := []string{"null", "[1 2]", "{\"a\" = 1}", "\"s\"", "1", "@u8[1 2]"}
	tails := [][]byte{{}, []byte("0\nnull"), []byte("1\n[1 2]"), {0x00, 0x7d}, {0x01, 0x7d}, {0x00, 0x9a, 0x01, 0x9b}, []byte("0 null"), []byte("0\r\n\"x\""), {0x00}, []byte("x"), {0xff, 0xff}, []byte("2\nnull"), {0x02, 0x7d}}
	// 1. every first byte × every tail (plus the empty document)
	if c.Take() {
		c27Differential(c, []byte{}, "empty")
	}
	for b := 0; b < 256; b++ {
		if !c.Take() {
			continue
		}
		for ti, t := range tails {
			doc := append([]byte{byte(b)}, t...)
			c27Differential(c, doc, fmt.Sprintf("first-byte-%02x+tail%d", b, ti))
		}
	}
	// 2. valid header followed by every single byte (binary) / every byte after the version line (text), and bodies ending in every byte
	for b := 0; b < 256; b++ {
		if !c.Take() {
			continue
		}
		c27Differential(c, []byte{0x81, 0x00, byte(b)}, "cbe-one-byte-body")
		c27Differential(c, []byte{0x81, 0x00, 0x81, byte(b)}, "cbe-one-char-string")
		c27Differential(c, []byte{0x81, 0x01, 0x68, byte(b)}, "cbe-v1-int8")
		c27Differential(c, append([]byte("c0\n"), byte(b)), "cte-one-byte-body")
		c27Differential(c, append([]byte("C0 1"), byte(b)), "cte-int-then-byte")
		c27Differential(c, append([]byte{byte(b)}, []byte("c0\nnull")...), "byte-before-cte")
		c27Differential(c, append([]byte("c0\nnull"), byte(b)), "cte-then-byte")
	}
	// 3. version numbers
	var nums []uint64
	for v := uint64(0); v <= uint64(c.Pick(300, 70000)); v++ {
		nums = append(nums, v)
	}
	for k := uint(1); k <= 9; k++ {
		nums = append(nums, 1<<(7*k)-1, 1<<(7*k), 1<<(7*k)+1)
	}
	nums = append(nums, 1<<32, 1<<32+1, 1<<40+1, 1<<56, 65536, 65537, 1<<63, ^uint64(0), ^uint64(0)-1)
	for _, body := range cbeBodies {
		if !c.Take() {
			continue
		}
		body := body
		var vs []string
		for _, n := range nums {
			vs = append(vs, fmt.Sprint(n))
		}
		c27Version(c, func(v string) []byte {
			var n uint64
			fmt.Sscan(v, &n)
			return append(append([]byte{0x81}, uleb(n)...), body...)
		}, "cbe", vs, false)
		// over-long and non-minimal ULEB128 spellings are "other versions" unless they denote 0 or 1 (don't-care: non-minimal 0/1)
		for _, raw := range [][]byte{{0x80, 0x80, 0x80, 0x80, 0x80, 0x80, 0x80, 0x80, 0x80, 0x02}, {0xff, 0xff, 0xff, 0xff, 0xff, 0xff, 0xff, 0xff, 0xff, 0xff, 0x01}, {0x82, 0x00}, {0x80, 0x01}} {
			doc := append(append([]byte{0x81}, raw...), body...)
			got, err := decodeSpecific(doc)
			c.Add("evaluations", 1)
			if err == nil {
				c.Violation("cbe:other-version-accepted", fmt.Sprintf("CBE document with version bytes % x is accepted -> [%s]", raw, clipS(got)), c27Witness{Doc: doc, Kind: "version-raw"})
			}
			c27Differential(c, doc, "cbe-version-raw")
		}
		for _, n := range nums {
			c27Differential(c, append(append([]byte{0x81}, uleb(n)...), body...), "cbe-version")
		}
	}
	for _, body := range cteBodies {
		for _, letter := range []string{"c", "C"} {
			for _, sep := range []string{"\n", " ", "\r\n", "\t", "\n\n  "} {
				if !c.Take() {
					continue
				}
				body, letter, sep := body, letter, sep
				vs := []string{"0", "1", "2", "3", "4", "5", "6", "7", "8", "9", "10", "11", "12", "20", "99", "100", "255", "256", "257", "65536", "4294967297", "18446744073709551616"}
				mk := func(v string) []byte { return []byte(letter + v + sep + body) }
				c27Version(c, mk, "cte", vs, false)
				for _, v := range append(vs, "", "00", "01", "-0", "0x0", "１", "0.0", "1e0") {
					c27Differential(c, mk(v), "cte-version")
				}
				c27Differential(c, []byte(letter+"0"+body), "cte-no-separator")
			}
		}
	}
	// 4. every encoder writes version 0
	for _, d := range ioCorpus(0) {
		if !c.Take() {
			continue
		}
		c.Add("evaluations", 1)
		c.Add("encoder_header_cases", 1)
		if d.cbe != nil && !bytes.HasPrefix(d.cbe, []byte{0x81, 0x00}) {
			c.Violation("cbe-encoder:header-not-version-0", fmt.Sprintf("CBE encoder output starts % x", clipB(d.cbe)), c27Witness{Doc: d.cbe, Kind: "encoder"})
		}
		if d.cte != nil && !bytes.HasPrefix(d.cte, []byte("c0")) {
			c.Violation("cte-encoder:header-not-version-0", fmt.Sprintf("CTE encoder output starts %q", clipS(string(d.cte))), c27Witness{Doc: d.cte, Kind: "encoder"})
		}
		if d.cte != nil && len(d.cte) > 2 && d.cte[2] >= '0' && d.cte[2] <= '9' {
			c.Violation("cte-encoder:header-not-version-0", fmt.Sprintf("CTE encoder output starts %q", clipS(string(d.cte))), c27Witness{Doc: d.cte, Kind: "encoder"})
		}
		for _, f := range []codec.Format{codec.CBE, codec.CTE} {
			// version event reported by the decoder for encoder output must be 0
			doc := d.cbe
			if f == codec.CTE {
				doc = d.cte
			}
			if doc == nil {
				continue
			}
			if es, err := codec.Decode(f, doc, nil, true); err == nil && len(es) > 1 && (es[1].K != ev.Version || es[1].U != 0) {
				c.Violation(f.String()+"-encoder:header-not-version-0", fmt.Sprintf("decoding encoder output reports %s", es[1].Key()), c27Witness{Doc: doc, Kind: "encoder"})
			}
		}
	}
	// 5. one universal decoder instance fed documents of alternating formats (detection is per document)
	seqDocs := [][]byte{[]byte("c0\n[1 2 3]"), {0x81, 0x00, 0x9a, 0x01, 0x02, 0x03, 0x9b}, []byte("C1 \"x\""), {0x81, 0x01, 0x81, 'x'}, {0x00}, []byte("c0\nnull")}
	if c.Take() {
		for a := range seqDocs {
			for b := range seqDocs {
				for d := range seqDocs {
					seq := [][]byte{seqDocs[a], seqDocs[b], seqDocs[d]}
					dec := ce.NewCEDecoder(configuration.New())
					for i, doc := range seq {
						rec := &ev.Recorder{}
						var rcv events.DataEventReceiver = rules.NewRules(rec, configuration.New())
						var err error
						perr := safeCall(func() error { err = dec.DecodeDocument(doc, rcv); return nil })
						want, werr := func() (string, error) {
							if detectFormat(doc) == "none" {
								return "", fmt.Errorf("unknown format")
							}
							return decodeSpecific(doc)
						}()
						c.Add("evaluations", 1)
						c.Add("sequence_steps", 1)
						w := c27Witness{Doc: doc, Docs: seq, Kind: fmt.Sprintf("sequence-step-%d", i)}
						if perr != nil {
							c.Violation("universal-decoder-reused:panic-escapes", fmt.Sprintf("step %d: %v", i, perr), w)
						} else if (err == nil) != (werr == nil) || err == nil && ev.Join(rec.Events) != want {
							c.Violation("universal-decoder-reused:differs-from-specific-decoder",
								fmt.Sprintf("document %d (%q) of a sequence on one universal decoder: err=%v events [%s]; specific decoder: err=%v events [%s]", i, clipS(string(doc)), err, clipS(ev.Join(rec.Events)), werr, clipS(want)), w)
						}
					}
				}
			}
		}
	}
}

func init() {
	register(&fx.Check{
		ID:    "C27",
		Level: "exploration",
		Rule: "documents: the empty document; every first byte 0..255 × 13 tails (valid/invalid CBE and CTE bodies); valid headers followed by every byte value in 7 positions; CBE version ULEB128 for every v in 0..300 (thorough: 0..70000) ∪ {2^(7k)-1,2^(7k),2^(7k)+1} ∪ extremes and over-long/non-minimal spellings × 5 bodies; CTE header letter {c,C} × 30 version spellings × 5 separators × 6 bodies; " +
			"oracles: (a) each universal entry point (UnmarshalCE, UnmarshalFromCEDocument, NewCEDecoder Decode/DecodeDocument) gives the same value/events/error presence as the specific entry point of the detected format, and an error for any other first byte; (b) versions 0 and 1 accepted with identical results, every other version number rejected; (c) every encoder output over the I/O corpus starts with version 0; " +
			"(d) all 216 three-document sequences over 6 documents of alternating formats on one universal decoder instance; distinct_nontrivial = distinct documents",
		Assumptions: []string{"non-numeric or oddly spelled versions (empty, 00, 01, -0, 0x0, full-width digit) are only compared differentially, not judged", "non-minimal ULEB128 spellings of 0 and 1 are a don't-care"},
		TrustedBase: []string{"the format-specific entry points as reference for the universal ones"},
		Guards:      map[string]int64{"differential_cases": 20000, "version_cases": 3000, "accepted_by_specific": 1000, "sequence_steps": 600},
		Run:         c27Run,
		Replay: func(raw json.RawMessage) string {
			var w c27Witness
			if err := json.Unmarshal(raw, &w); err != nil {
				return err.Error()
			}
			c := fx.NewScratchCtx()
			c27Differential(c, w.Doc, "replay")
			if got, err := decodeSpecific(w.Doc); w.Kind != "" && len(w.Kind) > 8 && w.Kind[:8] == "version:" {
				v := w.Kind[8:]
				if (v == "0" || v == "1") && err != nil {
					return "version " + v + " rejected: " + err.Error()
				}
				if v != "0" && v != "1" && err == nil {
					return "version " + v + " accepted: " + got
				}
			}
			return c.FirstViolation()
		},
	})
}
