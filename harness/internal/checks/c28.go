package checks

import (
	"bytes"
	"encoding/json"
	"fmt"
	"io"
	"strings"

	"github.com/kstenerud/go-concise-encoding/cbe"
	"github.com/kstenerud/go-concise-encoding/ce"
	"github.com/kstenerud/go-concise-encoding/ce/events"
	"github.com/kstenerud/go-concise-encoding/configuration"
	"github.com/kstenerud/go-concise-encoding/cte"
	"github.com/kstenerud/go-concise-encoding/rules"
	"verif/harness/internal/env"
	"verif/harness/internal/ev"
	"verif/harness/internal/fx"
	"verif/harness/internal/statekey"
)

// readEntry is one reader-taking entry point together with its in-memory counterpart.
type readEntry struct {
	name   string
	format string // "cbe", "cte" or "any"
	// run returns an observation string (events or value) and the error
	stream func(r io.Reader) (string, error)
	memory func(doc []byte) (string, error)
}

func valueKey(v interface{}) string {
	return statekey.Of(v, statekey.Options{FollowPointers: true})
}

func guard(f func() (string, error)) (obs string, err error) {
	defer func() {
		if x := recover(); x != nil {
			err = fmt.Errorf("ESCAPED PANIC: %v", x)
		}
	}()
	return f()
}

func readEntries() []readEntry {
	newRcv := func(cfg *configuration.Configuration) (*ev.Recorder, events.DataEventReceiver) {
		rec := &ev.Recorder{}
		return rec, rules.NewRules(rec, cfg)
	}
	return []readEntry{
		{"cbe.Decoder.Decode", "cbe",
			func(r io.Reader) (string, error) {
				cfg := configuration.New()
				rec, rcv := newRcv(cfg)
				err := cbe.NewDecoder(cfg).Decode(r, rcv)
				return ev.Join(rec.Events), err
			},
			func(doc []byte) (string, error) {
				cfg := configuration.New()
				rec, rcv := newRcv(cfg)
				err := cbe.NewDecoder(cfg).DecodeDocument(doc, rcv)
				return ev.Join(rec.Events), err
			}},
		{"cte.Decoder.Decode", "cte",
			func(r io.Reader) (string, error) {
				cfg := configuration.New()
				rec, rcv := newRcv(cfg)
				err := cte.NewDecoder(cfg).Decode(r, rcv)
				return ev.Join(rec.Events), err
			},
			func(doc []byte) (string, error) {
				cfg := configuration.New()
				rec, rcv := newRcv(cfg)
				err := cte.NewDecoder(cfg).DecodeDocument(doc, rcv)
				return ev.Join(rec.Events), err
			}},
		{"ce.NewCEDecoder.Decode", "any",
			func(r io.Reader) (string, error) {
				cfg := configuration.New()
				rec, rcv := newRcv(cfg)
				err := ce.NewCEDecoder(cfg).Decode(r, rcv)
				return ev.Join(rec.Events), err
			},
			func(doc []byte) (string, error) {
				cfg := configuration.New()
				rec, rcv := newRcv(cfg)
				err := ce.NewCEDecoder(cfg).DecodeDocument(doc, rcv)
				return ev.Join(rec.Events), err
			}},
		{"ce.UnmarshalCBE", "cbe",
			func(r io.Reader) (string, error) {
				v, err := ce.UnmarshalCBE(r, nil, configuration.New())
				return valueKey(v), err
			},
			func(doc []byte) (string, error) {
				v, err := ce.UnmarshalFromCBEDocument(doc, nil, configuration.New())
				return valueKey(v), err
			}},
		{"ce.UnmarshalCTE", "cte",
			func(r io.Reader) (string, error) {
				v, err := ce.UnmarshalCTE(r, nil, configuration.New())
				return valueKey(v), err
			},
			func(doc []byte) (string, error) {
				v, err := ce.UnmarshalFromCTEDocument(doc, nil, configuration.New())
				return valueKey(v), err
			}},
		{"ce.UnmarshalCE", "any",
			func(r io.Reader) (string, error) {
				v, err := ce.UnmarshalCE(r, nil, configuration.New())
				return valueKey(v), err
			},
			func(doc []byte) (string, error) {
				v, err := ce.UnmarshalFromCEDocument(doc, nil, configuration.New())
				return valueKey(v), err
			}},
	}
}

type c28Witness struct {
	Entry  string     `json:"entry"`
	Doc    []byte     `json:"document"`
	Script env.Script `json:"script"`
}

func errPresence(err error) string {
	if err == nil {
		return "ok"
	}
	return "error"
}

// checkScript runs one environment script and compares with the in-memory baseline.
func c28CheckScript(c *fx.Ctx, e readEntry, doc []byte, baseObs string, baseErr error, sc env.Script, devName string) (calls int) {
	rd := &env.Reader{Data: doc, Script: sc}
	obs, err := guard(func() (string, error) { return e.stream(rd) })
	c.Add("evaluations", 1)
	c.Add("executions", 1)
	w := c28Witness{Entry: e.name, Doc: doc, Script: sc}
	validity := "valid-doc"
	if baseErr != nil {
		validity = "invalid-doc"
	}
	if errPresence(err) != errPresence(baseErr) {
		c.Violation(fmt.Sprintf("%s:%s:verdict-differs(%s-vs-memory-%s):%s", e.name, devName, errPresence(err), errPresence(baseErr), validity),
			fmt.Sprintf("%s with reader script %v on % x: err=%v, but from memory err=%v", e.name, scriptString(sc), clipB(doc), err, baseErr), w)
	} else if obs != baseObs && baseErr == nil {
		c.Violation(fmt.Sprintf("%s:%s:result-differs:%s", e.name, devName, validity),
			fmt.Sprintf("%s with reader script %v on % x gives %s, from memory %s", e.name, scriptString(sc), clipB(doc), clipS(obs), clipS(baseObs)), w)
	}
	return rd.Calls
}

func scriptString(sc env.Script) string {
	s := "default=" + sc.Default.String()
	for i := 0; i < 1000; i++ {
		if a, ok := sc.At[i]; ok {
			s += fmt.Sprintf(" @%d=%s", i, a)
		}
	}
	return s
}

func c28Run(c *fx.Ctx) {
	c28Reused(c)
	docs := ioCorpus(0)
	entries := readEntries()
	maxDev2 := c.Pick(250, 20000) // cap on 2-deviation scripts per (entry, doc)
	for _, d := range docs {
		var inputs [][]byte
		for _, b := range [][]byte{d.cbe, d.cte} {
			if b == nil {
				continue
			}
			inputs = append(inputs, b)
			for i, v := range invalidVariants(b, 6) {
				if i%2 == 0 || c.Thorough() {
					inputs = append(inputs, v)
				}
			}
		}
		for _, doc := range inputs {
			for _, e := range entries {
				if !c.Take() {
					continue
				}
				isCBE := len(doc) > 0 && doc[0] == 0x81
				if e.format == "cbe" && !isCBE || e.format == "cte" && isCBE {
					continue
				}
				baseObs, baseErr := guard(func() (string, error) { return e.memory(doc) })
				c.Distinct("nontrivial", e.name+string(doc))
				if c.Index()%41 == 0 {
					c.Sample(map[string]interface{}{"entry": e.name, "document": fmt.Sprintf("%x", clipB(doc)), "example_script": scriptString(env.Script{At: map[int]env.Answer{1: {Kind: env.Zero}, 2: {Kind: env.Short, K: 1}}})})
				}
				// 0 deviations
				n := c28CheckScript(c, e, doc, baseObs, baseErr, env.Script{}, "default")
				// saturated scripts
				c28CheckScript(c, e, doc, baseObs, baseErr, env.Script{Default: env.Answer{Kind: env.Short, K: 1}}, "always-1-byte")
				c28CheckScript(c, e, doc, baseObs, baseErr, env.Script{Default: env.Answer{Kind: env.DataEOF}}, "data+eof")
				alt := env.Script{At: map[int]env.Answer{}, Default: env.Answer{Kind: env.Short, K: 1}}
				for i := 0; i < 4*len(doc)+8; i += 2 {
					alt.At[i] = env.Answer{Kind: env.Zero}
				}
				c28CheckScript(c, e, doc, baseObs, baseErr, alt, "alternate-zero-1byte")
				// 1 deviation: every call index × every kind
				kinds := []env.Answer{{Kind: env.Short, K: 1}, {Kind: env.Short, K: 2}, {Kind: env.Zero}, {Kind: env.DataEOF}}
				for i := 0; i < n; i++ {
					for _, k := range kinds {
						c28CheckScript(c, e, doc, baseObs, baseErr, env.Script{At: map[int]env.Answer{i: k}}, "1dev:"+k.String())
					}
				}
				// 2 deviations: all pairs (capped; the cap is reported)
				count := 0
				maxDev2 := maxDev2
				if strings.HasPrefix(e.name, "ce.Unmarshal") {
					maxDev2 = c.Pick(40, 3000) // the one-shot helpers cost ~200µs per call (they copy the root session)
				}
			outer:
				for i := 0; i < n+2; i++ {
					for _, k1 := range kinds {
						for j := i + 1; j < n+4; j++ {
							for _, k2 := range kinds {
								if count >= maxDev2 {
									c.Add("dev2_capped_pairs", 1)
									break outer
								}
								count++
								c28CheckScript(c, e, doc, baseObs, baseErr, env.Script{At: map[int]env.Answer{i: k1, j: k2}}, "2dev:"+k1.String()+"+"+k2.String())
							}
						}
					}
				}
			}
		}
	}
}

// c28Reused: the reader behaviour must not matter across documents either: one decoder/unmarshaler instance decodes
// document 1 (valid, or rejected at its very last byte) through a scripted reader and then document 2 through another;
// each result must equal decoding that document from memory on a fresh instance.
func c28Reused(c *fx.Ctx) {
	firsts := [][]byte{{0x81, 0x00, 0x9a, 0x01, 0x73}, {0x81, 0x00, 0x05, 0x06}, {0x81, 0x00, 0x9a, 0x01, 0x02, 0x9b}, {0x81, 0x00, 0x90, 0x05, 'a', 'b'}, []byte("c0\n[1 2] 3"), []byte("c0\n[1 2]"), []byte("c0\n\"ab")}
	seconds := [][]byte{{0x81, 0x00, 0x9a, 0x01, 0x02, 0x03, 0x9b}, {0x81, 0x00, 0x83, 'a', 'b', 'c'}, []byte("c0\n[1 2 3]"), []byte("c0\n\"abc\"")}
	scripts := []env.Script{{}, {Default: env.Answer{Kind: env.DataEOF}}, {Default: env.Answer{Kind: env.Short, K: 1}}, {At: map[int]env.Answer{0: {Kind: env.Zero}}, Default: env.Answer{Kind: env.DataEOF}}, {At: map[int]env.Answer{1: {Kind: env.Zero}, 2: {Kind: env.Short, K: 2}}}}
	type inst struct {
		name string
		mk   func() func(r io.Reader) (string, error)
		mem  func(doc []byte) (string, error)
		cbe  bool
	}
	insts := []inst{
		{"cbe.Decoder(reused)", func() func(r io.Reader) (string, error) {
			d := cbe.NewDecoder(configuration.New())
			return func(r io.Reader) (string, error) {
				rec := &ev.Recorder{}
				err := d.Decode(r, rules.NewRules(rec, configuration.New()))
				return ev.Join(rec.Events), err
			}
		}, readEntries()[0].memory, true},
		{"cbe.Unmarshaler(reused)", func() func(r io.Reader) (string, error) {
			u := cbe.NewUnmarshaler(configuration.New())
			return func(r io.Reader) (string, error) { v, err := u.Unmarshal(r, nil); return valueKey(v), err }
		}, readEntries()[3].memory, true},
		{"cte.Decoder(reused)", func() func(r io.Reader) (string, error) {
			d := cte.NewDecoder(configuration.New())
			return func(r io.Reader) (string, error) {
				rec := &ev.Recorder{}
				err := d.Decode(r, rules.NewRules(rec, configuration.New()))
				return ev.Join(rec.Events), err
			}
		}, readEntries()[1].memory, false},
		{"cte.Unmarshaler(reused)", func() func(r io.Reader) (string, error) {
			u := cte.NewUnmarshaler(configuration.New())
			return func(r io.Reader) (string, error) { v, err := u.Unmarshal(r, nil); return valueKey(v), err }
		}, readEntries()[4].memory, false},
		{"universal.Decoder(reused)", func() func(r io.Reader) (string, error) {
			d := ce.NewCEDecoder(configuration.New())
			return func(r io.Reader) (string, error) {
				rec := &ev.Recorder{}
				err := d.Decode(r, rules.NewRules(rec, configuration.New()))
				return ev.Join(rec.Events), err
			}
		}, readEntries()[2].memory, true},
	}
	for _, in := range insts {
		if !c.Take() {
			continue
		}
		for _, d1 := range firsts {
			for _, d2 := range seconds {
				universal := strings.HasPrefix(in.name, "universal")
				if !universal && ((d1[0] == 0x81) != in.cbe || (d2[0] == 0x81) != in.cbe) {
					continue
				}
				for _, s1 := range scripts {
					for _, s2 := range scripts {
						run := in.mk()
						o1, e1 := guard(func() (string, error) { return run(&env.Reader{Data: d1, Script: s1}) })
						o2, e2 := guard(func() (string, error) { return run(&env.Reader{Data: d2, Script: s2}) })
						m1, me1 := guard(func() (string, error) { return in.mem(d1) })
						m2, me2 := guard(func() (string, error) { return in.mem(d2) })
						c.Add("evaluations", 1)
						c.Add("executions", 1)
						c.Add("reused_instance_sequences", 1)
						w := c28Witness{Entry: in.name, Doc: append(append(append([]byte{}, d1...), '|'), d2...), Script: s2}
						if errPresence(e1) != errPresence(me1) || (e1 == nil && o1 != m1) {
							c.Violation(in.name+":first-document-differs", fmt.Sprintf("%s: document 1 (% x) with reader script %s: err=%v result %s; from memory err=%v result %s", in.name, d1, scriptString(s1), e1, clipS(o1), me1, clipS(m1)), w)
						} else if errPresence(e2) != errPresence(me2) || (e2 == nil && o2 != m2) {
							c.Violation(fmt.Sprintf("%s:second-document-differs(%s-vs-memory-%s)", in.name, errPresence(e2), errPresence(me2)),
								fmt.Sprintf("%s: after document 1 (% x, script %s, err=%v), document 2 (% x, script %s) gives err=%v result %s; from memory on a fresh instance err=%v result %s", in.name, d1, scriptString(s1), e1, d2, scriptString(s2), e2, clipS(o2), me2, clipS(m2)), w)
						}
					}
				}
			}
		}
	}
}

func init() {
	register(&fx.Check{
		ID:    "C28",
		Level: "fault_enumeration",
		Rule: "environment-answer exploration: for each of ~150 documents (every token kind) and their truncated/mutated variants, through 6 reader entry points (cbe/cte/universal Decode, UnmarshalCBE/CTE/CE), the io.Reader answers each Read call with full / short(1) / short(2) / (0,nil) / data+EOF; " +
			"plus all two-document sequences (7 first documents incl. ones rejected at their last byte × 4 second documents × 5×5 reader scripts) on one reused decoder/unmarshaler instance of each kind; all scripts with 0 and 1 deviations from the all-full script (every call index × every kind), all pairs of deviations up to a stated cap, plus 3 saturated scripts (always 1 byte, alternate zero/1 byte, data+EOF); " +
			"oracle: recorded events / built value / error presence equal to decoding the same bytes from memory; distinct_nontrivial = distinct (entry point, document) pairs",
		Assumptions: []string{"a (0,nil) answer is given at most once per call index (a reader returning (0,nil) forever may legitimately block the caller)", "for invalid documents only error presence is compared"},
		TrustedBase: []string{"env.Reader (scripted io.Reader)", "reflect-based value rendering"},
		Guards:      map[string]int64{"executions": 100000},
		Run:         c28Run,
		Replay: func(raw json.RawMessage) string {
			var w c28Witness
			if err := json.Unmarshal(raw, &w); err != nil {
				return err.Error()
			}
			for _, e := range readEntries() {
				if e.name != w.Entry {
					continue
				}
				c := fx.NewScratchCtx()
				bo, be := guard(func() (string, error) { return e.memory(w.Doc) })
				c28CheckScript(c, e, w.Doc, bo, be, w.Script, "replay")
				return c.FirstViolation()
			}
			return "unknown entry " + w.Entry
		},
	})
}

var _ = bytes.NewReader
