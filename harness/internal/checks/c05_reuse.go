package checks

import (
	"fmt"
	"reflect"

	"github.com/kstenerud/go-concise-encoding/configuration"
	"github.com/kstenerud/go-concise-encoding/iterator"
	"verif/harness/internal/ev"
	"verif/harness/internal/fx"
	"verif/harness/internal/gen"
)

// c05ReuseCase: one root iterator (and one session) used for several Iterate calls must emit the same events every
// time (marker names, record types and reference tables are per document).
func c05ReuseCase(c *fx.Ctx, g gen.GV, level int, mc marshalCfg) {
	cfg := mc.mk(g.V)
	var runs [3]string
	var errs [3]error
	func() {
		rec := &ev.Recorder{}
		sess := iterator.NewSession(nil, cfg)
		it := sess.NewIterator(rec)
		for i := range runs {
			rec.Reset()
			errs[i] = safeCall(func() error { it.Iterate(g.V); return nil })
			runs[i] = ev.Join(renumberMarkers(rec.Events))
		}
	}()
	c.Add("evaluations", 1)
	c.Add("iterator_reuse_cases", 1)
	if containsMap(reflect.TypeOf(g.V)) {
		return // event order follows Go map iteration order
	}
	for i := 1; i < len(runs); i++ {
		if runs[i] != runs[0] || (errs[i] == nil) != (errs[0] == nil) {
			c.Violation(fmt.Sprintf("reused-iterator-differs:%s:%s", mc.name, leafKind(g.Class)),
				fmt.Sprintf("Iterate call %d on one root iterator emits [%s] (err=%v) but the first call emitted [%s] (err=%v) for %s", i+1, clipS(runs[i]), errs[i], clipS(runs[0]), errs[0], g.Name),
				gvW(g, level, "", mc.name))
			return
		}
	}
}

// renumberMarkers renames marker/reference identifiers in order of first appearance (the names are arbitrary).
func renumberMarkers(es []ev.E) []ev.E {
	ids := map[string]string{}
	out := make([]ev.E, len(es))
	for i, e := range es {
		if e.K == ev.Marker || e.K == ev.Ref {
			k := string(e.Data)
			if _, ok := ids[k]; !ok {
				ids[k] = fmt.Sprintf("m%d", len(ids))
			}
			e.Data = []byte(ids[k])
		}
		out[i] = e
	}
	return out
}

// sharedPointerValues: values with repeated and cyclic pointers (markers/references are emitted with recursion support).
func sharedPointerValues() []gen.GV {
	type N struct {
		V    int
		Next *N
		Kids []*N
	}
	a := &N{V: 1}
	a.Next = a
	b := &N{V: 2}
	c := &N{V: 3, Next: b, Kids: []*N{b, b}}
	s := "shared"
	// two distinct shared references at one address but of different types
	type In struct {
		A int
		B string
	}
	type Out struct {
		In In
		Z  int
	}
	in := &In{A: 7, B: "x"}
	sl := []string{"a", "b"}
	arr := &[2]int16{5, 6}
	out := &Out{In: In{A: 1, B: "y"}, Z: 2}
	il := []interface{}{1, "two"}
	return []gen.GV{
		{Name: "shared:struct+first-field", Class: "shared-pointers", V: []interface{}{in, in, &in.A, &in.A}},
		{Name: "shared:first-field+struct", Class: "shared-pointers", V: []interface{}{&in.A, in, &in.A, in}},
		{Name: "shared:slice+first-element", Class: "shared-pointers", V: []interface{}{sl, sl, &sl[0], &sl[0]}},
		{Name: "shared:array+first-element", Class: "shared-pointers", V: []interface{}{arr, arr, &arr[0], &arr[0]}},
		{Name: "shared:outer+inner+field", Class: "shared-pointers", V: []interface{}{out, &out.In, &out.In.A, out, &out.In, &out.In.A}},
		{Name: "shared:iface-slice+first-element", Class: "shared-pointers", V: []interface{}{il, &il[0], il, &il[0]}},
		{Name: "shared:second-field", Class: "shared-pointers", V: []interface{}{in, &in.B, &in.B, in}},
		{Name: "shared:self-cycle", Class: "shared-pointers", V: a},
		{Name: "shared:diamond", Class: "shared-pointers", V: c},
		{Name: "shared:strings", Class: "shared-pointers", V: []*string{&s, &s, &s}},
		{Name: "shared:two-level", Class: "shared-pointers", V: []*N{c, c}},
	}
}

var _ = configuration.New
