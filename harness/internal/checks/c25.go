package checks

import (
	"bytes"
	"encoding/binary"
	"encoding/json"
	"fmt"
	"math"

	"github.com/kstenerud/go-concise-encoding/ce/events"
	"github.com/kstenerud/go-concise-encoding/configuration"
	"verif/harness/internal/codec"
	"verif/harness/internal/ev"
	"verif/harness/internal/fx"
)

type c25Witness struct {
	Kind   string `json:"array_kind"`
	Format uint8  `json:"format"`
	Others uint8  `json:"format_of_all_other_kinds"`
	Data   []byte `json:"array_bytes"`
	Elems  uint64 `json:"elements"`
	Form   string `json:"delivery"`
	Text   string `json:"cte_written,omitempty"`
}

type c25Kind struct {
	name  string
	at    events.ArrayType
	width int
	float bool
	set   func(a *configuration.CTEEncoderDefaultArrayFormats, f configuration.CTENumericFormat)
}

func c25Kinds() []c25Kind {
	type A = configuration.CTEEncoderDefaultArrayFormats
	type F = configuration.CTENumericFormat
	return []c25Kind{
		{"int8", events.ArrayTypeInt8, 1, false, func(a *A, f F) { a.Int8 = f }},
		{"int16", events.ArrayTypeInt16, 2, false, func(a *A, f F) { a.Int16 = f }},
		{"int32", events.ArrayTypeInt32, 4, false, func(a *A, f F) { a.Int32 = f }},
		{"int64", events.ArrayTypeInt64, 8, false, func(a *A, f F) { a.Int64 = f }},
		{"uint8", events.ArrayTypeUint8, 1, false, func(a *A, f F) { a.Uint8 = f }},
		{"uint16", events.ArrayTypeUint16, 2, false, func(a *A, f F) { a.Uint16 = f }},
		{"uint32", events.ArrayTypeUint32, 4, false, func(a *A, f F) { a.Uint32 = f }},
		{"uint64", events.ArrayTypeUint64, 8, false, func(a *A, f F) { a.Uint64 = f }},
		{"float16", events.ArrayTypeFloat16, 2, true, func(a *A, f F) { a.Float16 = f }},
		{"float32", events.ArrayTypeFloat32, 4, true, func(a *A, f F) { a.Float32 = f }},
		{"float64", events.ArrayTypeFloat64, 8, true, func(a *A, f F) { a.Float64 = f }},
	}
}

var c25Formats = []configuration.CTENumericFormat{
	configuration.CTEEncodingFormatDecimal, configuration.CTEEncodingFormatFlagZeroFilled,
	configuration.CTEEncodingFormatBinary, configuration.CTEEncodingFormatBinaryZeroFilled,
	configuration.CTEEncodingFormatOctal, configuration.CTEEncodingFormatOctalZeroFilled,
	configuration.CTEEncodingFormatHexadecimal, configuration.CTEEncodingFormatHexadecimalZeroFilled,
}

// element bit patterns per kind
func c25Elements(k c25Kind) []uint64 {
	w := uint(8 * k.width)
	max := ^uint64(0) >> (64 - w)
	if !k.float {
		signBit := uint64(1) << (w - 1)
		top := w - 8
		return []uint64{0, 1, 2, 7, 8, 9, 10, 15, 16, 100, 255 & max, signBit - 1, signBit, signBit + 1, max - 1, max, max / 3, 0xAAAAAAAAAAAAAAAA & max, 0x123456789ABCDEF0 & max,
			// elements whose zero-filled text begins like another base's prefix or an exponent: 0b…, 0e…, 0d…
			0x0b, 0x0e, 0x0b << top, 0x0b<<top | max>>8, 0x0b<<top | 0x11, 0x0e << top, 0x0e<<top | 1, 0x0d << top, 0xb1 & max, 0x0b<<top | 0x01<<(top/2)}
	}
	var vals []float64
	vals = append(vals, 0, math.Copysign(0, -1), 1, -1, 1.5, -2.25, 0.1, 1.0/3, 100, 255, 256, 65536, 1e10, -1e-10, 9223372036854775808, -9223372036854775808, 18446744073709551616, math.Inf(1), math.Inf(-1))
	var out []uint64
	switch k.width {
	case 2:
		for _, v := range vals {
			out = append(out, uint64(math.Float32bits(float32(v))>>16))
		}
		out = append(out, 0x0001, 0x007f, 0x0080, 0x7f7f, 0xff7f, 0x7fc0, 0x7fa0, 0x7f81, 0xffc0, 0x3f81)
	case 4:
		for _, v := range vals {
			out = append(out, uint64(math.Float32bits(float32(v))))
		}
		out = append(out, 0x00000001, 0x007fffff, 0x00800000, 0x7f7fffff, 0xff7fffff, 0x7fc00000, 0x7fa00000, 0x7f800001, 0xffc00000, 0x3f800001, 0x4b800001)
	default:
		for _, v := range vals {
			out = append(out, math.Float64bits(v))
		}
		out = append(out, 1, 0x000fffffffffffff, 0x0010000000000000, 0x7fefffffffffffff, 0xffefffffffffffff, 0x7ff8000000000000, 0x7ff4000000000000, 0x7ff0000000000001, 0xfff8000000000000, 0x3ff0000000000001, 0x4340000000000001, 0x43e0000000000000)
	}
	return out
}

func c25Bytes(width int, bits []uint64) []byte {
	var out []byte
	var b [8]byte
	for _, v := range bits {
		binary.LittleEndian.PutUint64(b[:], v)
		out = append(out, b[:width]...)
	}
	return out
}

// c25Equal: byte equality, except that NaN elements of float arrays keep only their quiet/signalling kind.
func c25Equal(k c25Kind, a, b []byte) bool {
	if !k.float {
		return bytes.Equal(a, b)
	}
	if len(a) != len(b) {
		return false
	}
	w := k.width
	for i := 0; i+w <= len(a); i += w {
		ea, eb := a[i:i+w], b[i:i+w]
		var xa, xb uint64
		for j := w - 1; j >= 0; j-- {
			xa = xa<<8 | uint64(ea[j])
			xb = xb<<8 | uint64(eb[j])
		}
		var nanA, nanB, quietA, quietB bool
		switch w {
		case 2:
			nanA, nanB = xa&0x7f80 == 0x7f80 && xa&0x7f != 0, xb&0x7f80 == 0x7f80 && xb&0x7f != 0
			quietA, quietB = xa&0x40 != 0, xb&0x40 != 0
		case 4:
			nanA, nanB = xa&0x7f800000 == 0x7f800000 && xa&0x7fffff != 0, xb&0x7f800000 == 0x7f800000 && xb&0x7fffff != 0
			quietA, quietB = xa&0x400000 != 0, xb&0x400000 != 0
		default:
			nanA, nanB = xa&0x7ff0000000000000 == 0x7ff0000000000000 && xa&0xfffffffffffff != 0, xb&0x7ff0000000000000 == 0x7ff0000000000000 && xb&0xfffffffffffff != 0
			quietA, quietB = xa&0x8000000000000 != 0, xb&0x8000000000000 != 0
		}
		if nanA || nanB {
			if nanA != nanB || quietA != quietB {
				return false
			}
			continue
		}
		if xa != xb {
			return false
		}
	}
	return true
}

func c25Case(c *fx.Ctx, k c25Kind, f, others configuration.CTENumericFormat, bits []uint64, form string) {
	cfg := configuration.New()
	for _, o := range c25Kinds() {
		o.set(&cfg.Encoder.CTE.DefaultNumericFormats.Array, others)
	}
	k.set(&cfg.Encoder.CTE.DefaultNumericFormats.Array, f)
	data := c25Bytes(k.width, bits)
	n := uint64(len(bits))
	var arr []ev.E
	switch form {
	case "whole":
		arr = []ev.E{ev.EArr(k.at, n, data)}
	case "one-chunk":
		arr = []ev.E{ev.EABegin(k.at), ev.EChunk(n, false)}
		if n > 0 {
			arr = append(arr, ev.EData(data))
		}
	default: // two chunks, second with split data
		if n < 2 {
			return
		}
		h := len(bits) / 2
		hb := h * k.width
		arr = []ev.E{ev.EABegin(k.at), ev.EChunk(uint64(h), true), ev.EData(data[:hb]), ev.EChunk(n-uint64(h), false)}
		if len(data)-hb > 1 {
			arr = append(arr, ev.EData(data[hb:hb+1]), ev.EData(data[hb+1:]))
		} else {
			arr = append(arr, ev.EData(data[hb:]))
		}
	}
	doc := append(append([]ev.E{ev.EBD(), ev.EV(0), ev.EList(), ev.EPInt(1)}, arr...), ev.EStr("z"), ev.EEnd(), ev.EED())
	c.Add("evaluations", 1)
	w := c25Witness{Kind: k.name, Format: uint8(f), Others: uint8(others), Data: data, Elems: n, Form: form}
	sig := fmt.Sprintf("%s:%s", k.name, f)
	text, _, err := codec.Encode(codec.CTE, doc, cfg, true)
	w.Text = clipS(string(text))
	if err != nil {
		c.Violation(sig+":encoder-fails", fmt.Sprintf("CTE encoder fails for %s array %x with format %s: %v", k.name, clipB(data), f, err), w)
		return
	}
	got, err := codec.Decode(codec.CTE, text, nil, true)
	if err != nil {
		c.Violation(sig+":written-text-unreadable", fmt.Sprintf("CTE written for %s array %x with format %s is rejected by the decoder: %q: %v", k.name, clipB(data), f, clipS(string(text)), err), w)
		return
	}
	// collect the array from the decoded events
	var back []byte
	var backN uint64
	found := false
	for _, e := range got {
		if (e.K == ev.Array || e.K == ev.ArrayBegin) && e.AT == k.at {
			found = true
		}
		if e.K == ev.Array && e.AT == k.at {
			back, backN = e.Data, e.U
		}
		if e.K == ev.Chunk && found {
			backN += e.U
		}
		if e.K == ev.Data && found {
			back = append(back, e.Data...)
		}
	}
	if !found || backN != n || !c25Equal(k, data, back) {
		c.Violation(sig+":elements-changed", fmt.Sprintf("%s array %x (%d elements) written with format %s as %q decodes to %x (%d elements, found=%v)", k.name, clipB(data), n, f, clipS(string(text)), clipB(back), backN, found), w)
		return
	}
	c.Distinct("nontrivial", string(text))
	if c.Index()%7 == 0 && len(bits) == 2 {
		c.Sample(fmt.Sprintf("%s/%s: %q", k.name, f, clipS(string(text))))
	}
}

func c25Run(c *fx.Ctx) {
	for _, k := range c25Kinds() {
		elems := c25Elements(k)
		for fi, f := range c25Formats {
			if !c.Take() {
				continue
			}
			// every other kind gets a different format, so a format taken from the wrong kind's setting shows
			otherFormats := []configuration.CTENumericFormat{c25Formats[(fi+1)%len(c25Formats)], c25Formats[(fi+3)%len(c25Formats)], c25Formats[(fi+6)%len(c25Formats)]}
			if c.Thorough() { // every other format, and every ordered pair of elements
				otherFormats = nil
				for d := 1; d < len(c25Formats); d++ {
					otherFormats = append(otherFormats, c25Formats[(fi+d)%len(c25Formats)])
				}
			}
			for _, others := range otherFormats {
				for _, form := range []string{"whole", "one-chunk", "two-chunks"} {
					c25Case(c, k, f, others, nil, form)
					for _, e := range elems {
						c25Case(c, k, f, others, []uint64{e}, form)
					}
					for i := 0; i+1 < len(elems); i += 2 {
						c25Case(c, k, f, others, []uint64{elems[i+1], elems[i]}, form)
					}
					if c.Thorough() && others == otherFormats[0] {
						for _, a := range elems {
							for _, b := range elems {
								c25Case(c, k, f, others, []uint64{a, b}, form)
							}
						}
					}
					c25Case(c, k, f, others, elems[:5], form)
					c25Case(c, k, f, others, elems, form)
				}
			}
		}
	}
}

func init() {
	register(&fx.Check{
		ID:    "C25",
		Level: "exploration",
		Rule: "the whole configuration space: 11 typed array kinds × 8 numeric formats (decimal, zero-fill flag, binary, octal, hexadecimal, each plain and zero-filled), with every OTHER kind set to a different format (3 choices) so a setting read from the wrong kind shows; × element alphabets (integers: 0,1,7..16,100, sign boundaries, max, alternating bits; floats: ±0, ±1, fractions, powers, 2^63, 2^64, ±inf, subnormals, extremes, quiet/signalling NaNs with payloads) " +
			"as empty, single, pair (thorough: every ordered pair, and every other format instead of 3), 5-element and full-alphabet arrays × 3 deliveries (whole, one chunk, two chunks with split data); oracle: the written CTE decodes and the array bytes are identical (NaN: quiet/signalling kind only); distinct_nontrivial = distinct written texts",
		Assumptions: []string{"NaN elements keep only their quiet/signalling kind"},
		TrustedBase: []string{"the default-configured CTE decoder as reader"},
		Guards:      map[string]int64{"evaluations": 20000},
		Run:         c25Run,
		Replay: func(raw json.RawMessage) string {
			var w c25Witness
			if err := json.Unmarshal(raw, &w); err != nil {
				return err.Error()
			}
			for _, k := range c25Kinds() {
				if k.name == w.Kind {
					var bits []uint64
					for i := 0; i+k.width <= len(w.Data); i += k.width {
						var b [8]byte
						copy(b[:], w.Data[i:i+k.width])
						bits = append(bits, binary.LittleEndian.Uint64(b[:]))
					}
					c := fx.NewScratchCtx()
					c25Case(c, k, configuration.CTENumericFormat(w.Format), configuration.CTENumericFormat(w.Others), bits, w.Form)
					return c.FirstViolation()
				}
			}
			return "unknown kind"
		},
	})
}
