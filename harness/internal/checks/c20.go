package checks

import (
	"encoding/json"
	"fmt"
	"reflect"
	"sort"
	"strings"

	"github.com/kstenerud/go-concise-encoding/cbe"
	"github.com/kstenerud/go-concise-encoding/configuration"
	"github.com/kstenerud/go-concise-encoding/cte"
	"verif/harness/internal/codec"
	"verif/harness/internal/fx"
)

// C20Node is the node type of the pointer graphs: struct nodes (by pointer), slice nodes (K, T*) and map nodes (M, U*).
type C20Node struct {
	V  int
	A  *C20Node
	B  *C20Node
	K  []*C20Node
	M  map[string]*C20Node
	P1 *string
	P2 *string
	T1 []string
	T2 []string
	U1 map[string]int
	U2 map[string]int
}

type c20Witness struct {
	Family string `json:"family"`
	Spec   string `json:"graph"`
	Format string `json:"format"`
}

// canon renders the graph reachable from root with identities numbered in order of first visit.
func c20Canon(root *C20Node) string {
	var sb strings.Builder
	structs := map[*C20Node]int{}
	slices := map[uintptr]int{}
	maps := map[uintptr]int{}
	strs := map[*string]int{}
	var visit func(n *C20Node)
	ref := func(n *C20Node) string {
		if n == nil {
			return "nil"
		}
		if id, ok := structs[n]; ok {
			return fmt.Sprintf("S%d", id)
		}
		structs[n] = len(structs)
		id := structs[n]
		visit(n)
		return fmt.Sprintf("S%d!", id)
	}
	sliceID := func(v reflect.Value, table map[uintptr]int, prefix string) (string, bool) {
		if v.IsNil() || v.Len() == 0 {
			return "nil", false
		}
		p := v.Pointer()
		if id, ok := table[p]; ok {
			return fmt.Sprintf("%s%d", prefix, id), false
		}
		table[p] = len(table)
		return fmt.Sprintf("%s%d!", prefix, table[p]), true
	}
	visit = func(n *C20Node) {
		fmt.Fprintf(&sb, "{V=%d", n.V)
		fmt.Fprintf(&sb, " A=%s", ref(n.A))
		fmt.Fprintf(&sb, " B=%s", ref(n.B))
		if id, fresh := sliceID(reflect.ValueOf(n.K), slices, "K"); fresh {
			fmt.Fprintf(&sb, " K=%s[", id)
			for _, e := range n.K {
				sb.WriteString(ref(e) + ",")
			}
			sb.WriteString("]")
		} else {
			fmt.Fprintf(&sb, " K=%s", id)
		}
		if id, fresh := sliceID(reflect.ValueOf(n.M), maps, "M"); fresh {
			fmt.Fprintf(&sb, " M=%s{", id)
			var ks []string
			for k := range n.M {
				ks = append(ks, k)
			}
			sort.Strings(ks)
			for _, k := range ks {
				fmt.Fprintf(&sb, "%s:%s,", k, ref(n.M[k]))
			}
			sb.WriteString("}")
		} else {
			fmt.Fprintf(&sb, " M=%s", id)
		}
		for i, p := range []*string{n.P1, n.P2} {
			if p == nil {
				continue
			}
			if id, ok := strs[p]; ok {
				fmt.Fprintf(&sb, " P%d=str%d", i+1, id)
			} else {
				strs[p] = len(strs)
				fmt.Fprintf(&sb, " P%d=str%d!%q", i+1, strs[p], *p)
			}
		}
		for i, t := range [][]string{n.T1, n.T2} {
			if id, fresh := sliceID(reflect.ValueOf(t), slices, "T"); fresh {
				fmt.Fprintf(&sb, " T%d=%s%v", i+1, id, t)
			} else if id != "nil" {
				fmt.Fprintf(&sb, " T%d=%s", i+1, id)
			}
		}
		for i, u := range []map[string]int{n.U1, n.U2} {
			if id, fresh := sliceID(reflect.ValueOf(u), maps, "U"); fresh {
				fmt.Fprintf(&sb, " U%d=%s%v", i+1, id, u)
			} else if id != "nil" {
				fmt.Fprintf(&sb, " U%d=%s", i+1, id)
			}
		}
		sb.WriteString("}")
	}
	sb.WriteString(ref(root))
	return sb.String()
}

func c20RoundTrip(c *fx.Ctx, root *C20Node, family, spec string) {
	cfg := configuration.New()
	cfg.Iterator.RecursionSupport = true
	want := c20Canon(root)
	for _, f := range []codec.Format{codec.CBE, codec.CTE} {
		var doc []byte
		var err error
		perr := safeCall(func() error {
			if f == codec.CBE {
				doc, err = cbe.NewMarshaler(cfg).MarshalToDocument(root)
			} else {
				doc, err = cte.NewMarshaler(cfg).MarshalToDocument(root)
			}
			return nil
		})
		c.Add("evaluations", 1)
		w := c20Witness{Family: family, Spec: spec, Format: f.String()}
		sig := fmt.Sprintf("%s:%s", f, family)
		if perr != nil || err != nil {
			e := err
			if perr != nil {
				e = perr
			}
			c.Violation(sig+":marshal-fails:"+errClass(e), fmt.Sprintf("marshal of graph %s fails: %v", want, e), w)
			continue
		}
		var got interface{}
		perr = safeCall(func() error {
			if f == codec.CBE {
				got, err = cbe.NewUnmarshaler(cfg).UnmarshalFromDocument(doc, (*C20Node)(nil))
			} else {
				got, err = cte.NewUnmarshaler(cfg).UnmarshalFromDocument(doc, (*C20Node)(nil))
			}
			return nil
		})
		if perr != nil || err != nil {
			e := err
			if perr != nil {
				e = perr
			}
			c.Violation(sig+":unmarshal-fails:"+errClass(e), fmt.Sprintf("unmarshal of marshaled graph %s fails: %v; document %s", want, e, showDoc(f, doc)), w)
			continue
		}
		back, ok := got.(*C20Node)
		if !ok {
			c.Violation(sig+":wrong-result-type", fmt.Sprintf("unmarshal returns %T", got), w)
			continue
		}
		if have := c20Canon(back); have != want {
			c.Violation(sig+":shape-changed", fmt.Sprintf("graph %s comes back as %s; document %s", want, have, showDoc(f, doc)), w)
			continue
		}
		c.Distinct("nontrivial", want)
		if c.Index()%97 == 0 {
			c.Sample(map[string]interface{}{"family": family, "format": f.String(), "graph": clipS(want), "document": showDoc(f, doc)})
		}
	}
}

// build a graph from a slot assignment: nodes[i] struct nodes; spec digits index targets (0 = nil, k = node k-1)
func c20FromSpec(n int, slots []int, withK, withM bool) *C20Node {
	nodes := make([]*C20Node, n)
	for i := range nodes {
		nodes[i] = &C20Node{V: 10 + i}
	}
	tgt := func(d int) *C20Node {
		if d == 0 {
			return nil
		}
		return nodes[d-1]
	}
	p := 0
	next := func() int { d := slots[p]; p++; return d }
	for i := range nodes {
		nodes[i].A = tgt(next())
		nodes[i].B = tgt(next())
	}
	if withK {
		k := []*C20Node{tgt(next()), tgt(next())}
		// which nodes hold the (shared) slice: bitmask digit
		holders := next()
		for i := range nodes {
			if holders&(1<<uint(i)) != 0 {
				nodes[i].K = k
			}
		}
	}
	if withM {
		m := map[string]*C20Node{"x": tgt(next())}
		holders := next()
		for i := range nodes {
			if holders&(1<<uint(i)) != 0 {
				nodes[i].M = m
			}
		}
	}
	return nodes[0]
}

func c20Run(c *fx.Ctx) {
	seen := map[string]bool{}
	// 1. all struct-only graphs with n <= 3 (quick) / 4 (thorough) nodes: every assignment of the 2n pointer slots
	maxN := c.Pick(3, 4)
	for n := 1; n <= maxN; n++ {
		total := 1
		for i := 0; i < 2*n; i++ {
			total *= n + 1
		}
		for code := 0; code < total; code++ {
			if !c.Take() {
				continue
			}
			slots := make([]int, 2*n)
			x := code
			for i := range slots {
				slots[i] = x % (n + 1)
				x /= n + 1
			}
			root := c20FromSpec(n, slots, false, false)
			canon := c20Canon(root)
			if seen[canon] {
				continue
			}
			seen[canon] = true
			c20RoundTrip(c, root, fmt.Sprintf("structs-%d", n), fmt.Sprint(slots))
		}
	}
	// 2. two struct nodes + one slice node (2 elements) + one map node (1 entry), each possibly shared by both structs
	{
		n := 2
		radix := []int{3, 3, 3, 3, 3, 3, 4, 3, 4}
		total := 1
		for _, r := range radix {
			total *= r
		}
		for code := 0; code < total; code++ {
			if !c.Take() {
				continue
			}
			slots := make([]int, len(radix))
			x := code
			for i, r := range radix {
				slots[i] = x % r
				x /= r
			}
			root := c20FromSpec(n, slots, true, true)
			canon := c20Canon(root)
			if seen[canon] {
				continue
			}
			seen[canon] = true
			c20RoundTrip(c, root, "structs-slice-map", fmt.Sprint(slots))
		}
	}
	// 3. a slice of 1..10 elements where element j points back to the root (cycle through a growing slice) or to a shared sibling
	for ln := 1; ln <= 10; ln++ {
		for j := 0; j < ln; j++ {
			for _, mode := range []string{"back-edge-to-root", "shared-sibling", "both"} {
				if !c.Take() {
					continue
				}
				root := &C20Node{V: 1}
				shared := &C20Node{V: 2}
				for i := 0; i < ln; i++ {
					switch {
					case i == j && mode != "shared-sibling":
						root.K = append(root.K, root)
					case (i == j || i == ln-1) && mode != "back-edge-to-root":
						root.K = append(root.K, shared)
					default:
						root.K = append(root.K, &C20Node{V: 100 + i})
					}
				}
				if mode == "both" {
					root.A = shared
				}
				c20RoundTrip(c, root, "slice-growth:"+mode, fmt.Sprintf("len=%d j=%d", ln, j))
			}
		}
	}
	// 4. map with 1..6 entries, entry j a back-edge / shared
	for ln := 1; ln <= 6; ln++ {
		for j := 0; j < ln; j++ {
			if !c.Take() {
				continue
			}
			root := &C20Node{V: 1, M: map[string]*C20Node{}}
			shared := &C20Node{V: 2}
			for i := 0; i < ln; i++ {
				switch {
				case i == j:
					root.M[fmt.Sprintf("k%d", i)] = root
				case i == ln-1:
					root.M[fmt.Sprintf("k%d", i)] = shared
				default:
					root.M[fmt.Sprintf("k%d", i)] = &C20Node{V: 100 + i}
				}
			}
			root.B = shared
			c20RoundTrip(c, root, "map-growth", fmt.Sprintf("len=%d j=%d", ln, j))
		}
	}
	// 5. shared leaves: *string, []string and map[string]int reachable from two places
	if c.Take() {
		s := "shared string"
		long := "a shared string of more than fifteen bytes"
		for _, str := range []*string{&s, &long} {
			r := &C20Node{V: 1, P1: str, P2: str}
			c20RoundTrip(c, r, "shared-string-pointer", *str)
			child := &C20Node{V: 2, P1: str}
			c20RoundTrip(c, &C20Node{V: 1, P1: str, A: child, B: child}, "shared-string-pointer", "nested:"+*str)
		}
		ts := []string{"a", "b"}
		c20RoundTrip(c, &C20Node{V: 1, T1: ts, T2: ts}, "shared-string-slice", "T1==T2")
		c20RoundTrip(c, &C20Node{V: 1, T1: ts, A: &C20Node{V: 2, T2: ts}}, "shared-string-slice", "parent+child")
		um := map[string]int{"a": 1, "b": 2}
		c20RoundTrip(c, &C20Node{V: 1, U1: um, U2: um}, "shared-int-map", "U1==U2")
		c20RoundTrip(c, &C20Node{V: 1, U1: um, A: &C20Node{V: 2, U2: um}}, "shared-int-map", "parent+child")
		// distinct but equal leaves must stay distinct
		s2, s3 := "same", "same"
		c20RoundTrip(c, &C20Node{V: 1, P1: &s2, P2: &s3}, "equal-but-distinct", "strings")
		c20RoundTrip(c, &C20Node{V: 1, T1: []string{"a"}, T2: []string{"a"}}, "equal-but-distinct", "slices")
	}
}

func init() {
	register(&fx.Check{
		ID:         "C20",
		Level:      "exploration",
		MemLimitKB: 4 * 1024 * 1024,
		Rule: "all pointer graphs over struct nodes with two pointer slots: every assignment of the 2n slots to nil or any node (self included) for n = 1..3 (quick) / 1..4 (thorough), deduplicated by the canonical form of the part reachable from the root; two struct nodes + one slice node + one map node with every assignment of their element slots and every subset of holders (shared slices/maps); " +
			"slices of 1..10 and maps of 1..6 elements with a back-edge to the root or a shared sibling at every position (containers that grow while a reference is pending); shared *string, []string and map[string]int leaves; equal-but-distinct leaves; " +
			"each marshaled with recursion support to CBE and CTE and unmarshaled into *Node; oracle: identical canonical form (identities numbered in order of first visit: same sharing, same cycles, same values); non-termination shows as a worker crash or stall; distinct_nontrivial = distinct canonical graphs that round-tripped",
		Assumptions: []string{"slice identity = backing array pointer of a non-empty slice; map identity = map pointer", "interior pointers and sub-slices of one backing array are not generated"},
		TrustedBase: []string{"canonical-form computation in c20.go"},
		Guards:      map[string]int64{"distinct:nontrivial": 300},
		Run:         c20Run,
		Replay: func(raw json.RawMessage) string {
			return "NOT-REPLAYABLE: graph witnesses name the family and slot assignment; re-run `scripts/check.sh C20 quick`"
		},
	})
}
