package checks

import (
	"fmt"
	"math"
	"math/big"
	"strings"
	"unicode/utf8"

	"github.com/cockroachdb/apd/v2"
	compact_float "github.com/kstenerud/go-compact-float"
	compact_time "github.com/kstenerud/go-compact-time"
	"github.com/kstenerud/go-concise-encoding/ce/events"
	"github.com/kstenerud/go-concise-encoding/configuration"
	"github.com/kstenerud/go-concise-encoding/rules"
	"verif/harness/internal/ev"
	"verif/harness/internal/fx"
	"verif/harness/internal/rulesmodel"
)

func c13Alphabet() []ev.E {
	return []ev.E{
		ev.EList(), ev.EMap(), ev.EEnd(), ev.EEdge(), ev.ENode(),
		ev.ENull(), ev.EPInt(1), ev.EStr("a"), ev.EFloat(1.5),
		ev.EABegin(events.ArrayTypeString), ev.EChunk(1, false), ev.EData([]byte("a")),
		ev.EMarker("a"), ev.EMarker("b"), ev.ERef("a"), ev.ERef("b"), ev.ERef("c"),
		ev.ERecType("x"), ev.ERec("x"), ev.EED(),
	}
}

// identifier classes for the pathologies sweep
func c13Identifiers(limit int) []struct {
	name string
	id   []byte
} {
	rep := func(s string, n int) []byte { return []byte(strings.Repeat(s, n)) }
	return []struct {
		name string
		id   []byte
	}{
		{"empty", []byte{}},
		{"one", []byte("a")},
		{"limit-1", rep("a", limit-1)},
		{"limit", rep("a", limit)},
		{"limit+1", rep("a", limit+1)},
		{"limit-bytes-multibyte", append(rep("é", limit/2), rep("a", limit%2)...)},
		{"limit+1-bytes-multibyte", append(rep("é", limit/2), rep("a", limit%2+1)...)},
		{"limit-chars-multibyte", rep("é", limit)},
		{"limit+1-chars-multibyte", rep("é", limit+1)},
		{"invalid-utf8", []byte{'a', 0xff}},
		{"truncated-utf8", []byte{'a', 0xc3}},
		{"surrogate", []byte{0xed, 0xa0, 0x80}},
		{"space", []byte("a b")},
		{"colon", []byte("a:b")},
		{"dot-dash-underscore", []byte("a.b-c_d")},
		{"digits", []byte("123")},
		{"non-ascii-letter", []byte("ñ日本")},
		{"combining-mark", []byte("á")},
		{"format-char", []byte("a‍")},
		{"symbol", []byte("a$")},
		{"quote", []byte("a\"")},
		{"control", []byte("a\x01")},
		{"nul", []byte("a\x00")},
	}
}

func c13ValueForms() [][]ev.E {
	var out [][]ev.E
	for _, e := range c15Alphabet() {
		switch e.K {
		case ev.ArrayBegin, ev.MediaBegin, ev.CustomBegin, ev.Chunk, ev.Data, ev.List, ev.Map, ev.End, ev.Edge, ev.Node, ev.RecordType, ev.Record, ev.Marker, ev.Ref,
			ev.Padding, ev.Comment, ev.Error, ev.ED:
			continue
		}
		out = append(out, []ev.E{e})
	}
	out = append(out,
		[]ev.E{ev.EABegin(events.ArrayTypeString), ev.EChunk(1, true), ev.EData([]byte("a")), ev.EChunk(1, false), ev.EData([]byte("b"))},
		[]ev.E{ev.EABegin(events.ArrayTypeResourceID), ev.EChunk(2, false), ev.EData([]byte("r:"))},
		[]ev.E{ev.EABegin(events.ArrayTypeUint8), ev.EChunk(1, false), ev.EData([]byte{1})},
		[]ev.E{ev.EABegin(events.ArrayTypeReferenceRemote), ev.EChunk(1, false), ev.EData([]byte("r"))},
		[]ev.E{ev.EMBegin("a/b"), ev.EChunk(0, false)},
		[]ev.E{ev.EList(), ev.EEnd()}, []ev.E{ev.EMap(), ev.EEnd()}, []ev.E{ev.ENode(), ev.EPInt(1), ev.EEnd()}, []ev.E{ev.EEdge(), ev.EPInt(1), ev.EPInt(2), ev.EPInt(3), ev.EEnd()},
		[]ev.E{ev.ERec("x"), ev.EPInt(1), ev.EEnd()},
	)
	return out
}

func c13MarkedKinds(c *fx.Ctx) {
	cat := func(parts ...[]ev.E) []ev.E {
		var o []ev.E
		for _, p := range parts {
			o = append(o, p...)
		}
		return o
	}
	one := func(es ...ev.E) []ev.E { return es }
	hdr := one(ev.EBD(), ev.EV(0), ev.ERecType("x"), ev.EStr("f"), ev.EEnd())
	ref := one(ev.ERef("a"))
	// positions for the reference: each returns the events of a container holding the reference
	positions := []struct {
		name string
		mk   func() []ev.E
	}{
		{"list-element", func() []ev.E { return cat(one(ev.EList()), ref, one(ev.EEnd())) }},
		{"map-key", func() []ev.E { return cat(one(ev.EMap()), ref, one(ev.EPInt(1), ev.EEnd())) }},
		{"map-value", func() []ev.E { return cat(one(ev.EMap(), ev.EStr("k")), ref, one(ev.EEnd())) }},
		{"edge-source", func() []ev.E { return cat(one(ev.EEdge()), ref, one(ev.EPInt(2), ev.EPInt(3), ev.EEnd())) }},
		{"edge-description", func() []ev.E { return cat(one(ev.EEdge(), ev.EPInt(1)), ref, one(ev.EPInt(3), ev.EEnd())) }},
		{"edge-destination", func() []ev.E { return cat(one(ev.EEdge(), ev.EPInt(1), ev.EPInt(2)), ref, one(ev.EEnd())) }},
		{"node-value", func() []ev.E { return cat(one(ev.ENode()), ref, one(ev.EEnd())) }},
		{"node-child", func() []ev.E { return cat(one(ev.ENode(), ev.EPInt(1)), ref, one(ev.EEnd())) }},
		{"record-field", func() []ev.E { return cat(one(ev.ERec("x")), ref, one(ev.EEnd())) }},
	}
	for _, vf := range c13ValueForms() {
		if !c.Take() {
			continue
		}
		marked := cat(one(ev.EMarker("a")), vf)
		for _, p := range positions {
			for order := 0; order < 3; order++ {
				var doc []ev.E
				switch order {
				case 0: // marker first, reference later
					doc = cat(hdr, one(ev.EList()), marked, p.mk(), one(ev.EEnd(), ev.EED()))
				case 1: // forward reference
					doc = cat(hdr, one(ev.EList()), p.mk(), marked, one(ev.EEnd(), ev.EED()))
				case 2: // the marked value is itself a map key, the reference follows in the same map
					doc = cat(hdr, one(ev.EList(), ev.EMap()), marked, one(ev.EPInt(1), ev.EStr("z")), p.mk(), one(ev.EEnd(), ev.EEnd(), ev.EED()))
				}
				c.Add("evaluations", 1)
				c.Add("marked_kind_docs", 1)
				name := []string{"backward", "forward", "marked-key"}[order]
				lockstep(c, doc, nil, rulesmodel.Config{}, "marked-kinds:"+name+":"+p.name+":", func(e ev.E, ctx string) string { return valueClass(vf[0]) })
			}
		}
	}
}

func c13Run(c *fx.Ctx) {
	// 1. BFS with the strict marker model
	s := &rsearch{prefix: []ev.E{ev.EBD(), ev.EV(0)}, alphabet: c13Alphabet(), depth: c.Pick(7, 9), split: 2, checkVerdict: true}
	s.run(c)
	for i, w := range c10Warmups() {
		rs := &rsearch{warmup: w, tag: []string{"after-complete-doc-and-reset:", "after-aborted-doc-and-reset:"}[i], prefix: []ev.E{ev.EBD(), ev.EV(0)}, alphabet: c13Alphabet(),
			depth: c.Pick(5, 7), split: 2, checkVerdict: true}
		rs.run(c)
	}

	// 1c. marked value kinds: every complete value form of the extended alphabet (every scalar method × boundary values,
	// re-routed NaN/nil forms, whole and chunked arrays, containers) under a marker, referenced before and after the
	// marker from every kind of position (list element, map key, map value, edge source/description/destination, node
	// value, record field). The strict model decides each sequence event by event.
	c13MarkedKinds(c)

	// 1b. builder clause: references are replaced by the marked value in typed and untyped builds
	c13BuilderClause(c)

	// 2. identifier pathologies, in every identifier-carrying event, default limit and a small configured limit
	for _, limit := range []int{1000, 5} {
		limit := limit
		mk := func() *configuration.Configuration {
			cfg := configuration.New()
			cfg.Rules.MaxIdentifierLength = uint64(limit)
			return cfg
		}
		for _, idc := range c13Identifiers(limit) {
			type form struct {
				name string
				seq  []ev.E
			}
			id := string(idc.id)
			forms := []form{
				{"marker", []ev.E{ev.EBD(), ev.EV(0), ev.EList(), ev.EMarker(id), ev.ENull(), ev.EEnd(), ev.EED()}},
				{"ref-backward", []ev.E{ev.EBD(), ev.EV(0), ev.EList(), ev.EMarker(id), ev.ENull(), ev.ERef(id), ev.EEnd(), ev.EED()}},
				{"ref-forward", []ev.E{ev.EBD(), ev.EV(0), ev.EList(), ev.ERef(id), ev.EMarker(id), ev.ENull(), ev.EEnd(), ev.EED()}},
				{"rectype", []ev.E{ev.EBD(), ev.EV(0), ev.ERecType(id), ev.EStr("k"), ev.EEnd(), ev.ERec(id), ev.ENull(), ev.EEnd(), ev.EED()}},
			}
			for _, f := range forms {
				if !c.Take() {
					continue
				}
				c.Add("evaluations", 1)
				lockstep(c, f.seq, mk(), rulesmodel.Config{MaxIdentifierLength: limit}, "", func(e ev.E, ctx string) string {
					return fmt.Sprintf("ident-%s:%s:%s@%s", idc.name, f.name, e.K.String(), ctx)
				})
			}
		}
	}

	// 3. every Unicode code point as an identifier character (alone and after a letter), in a marker
	const block = 0x400
	for base := 0; base < 0x110000; base += block {
		if !c.Take() {
			continue
		}
		for cp := base; cp < base+block; cp++ {
			if cp >= 0xD800 && cp <= 0xDFFF {
				continue
			}
			r := rune(cp)
			for _, id := range []string{string(r), "a" + string(r)} {
				seq := []ev.E{ev.EBD(), ev.EV(0), ev.EList(), ev.EMarker(id)}
				c.Add("evaluations", 1)
				c.Add("codepoint_cases", 1)
				lockstep(c, seq, nil, rulesmodel.Config{}, "", func(e ev.E, ctx string) string {
					return fmt.Sprintf("ident-char:%s", cpClass(r))
				})
			}
		}
	}
}

// cpClass: coarse class of a code point for signatures (Unicode general category major class + plane).
func cpClass(r rune) string {
	cat := "other"
	switch {
	case r < 0x80:
		cat = fmt.Sprintf("ascii-%q", string(r))
	case rulesmodel.ValidIdentChar(r):
		cat = "identifier-category(Cf,L,M,N)"
	default:
		cat = "non-identifier-category"
	}
	return cat
}

func init() {
	register(&fx.Check{
		ID:    "C13",
		Level: "model_checking",
		Rule: "explicit-state BFS (as C10) over a marker-rich 20-event alphabet (markers a,b; references a,b,c; containers; chunked and whole strings; record type/record) with the strict marker model " +
			"(unresolved reference at ED, duplicate id window, key reference keyability), plus identifier pathologies × 4 identifier-carrying forms × 2 length limits, plus every Unicode code point as an identifier character; distinct_nontrivial = distinct merged states",
		Assumptions: []string{"identifier character classes follow Go's unicode tables (Cf, L, M, N, '_', '.', '-')", "identifier length unit (bytes vs characters) is a don't-care between the two readings",
			"rejection windows: duplicate marker id from the second marker event to completion of the second object"},
		TrustedBase: []string{"harness reference automaton internal/rulesmodel", "Go unicode tables"},
		Guards:      map[string]int64{"accepted_transitions": 1000, "rejected_transitions": 1000, "complete_documents": 100, "codepoint_cases": 2000000},
		Run:         c13Run,
		Replay:      replayRules(true, false, rulesmodel.Config{}),
	})
	register(&fx.Check{
		ID:    "C15",
		Level: "model_checking",
		Rule: "explicit-state BFS over event sequences with a recorder behind the real validator: after every accepted event the recorder must have grown by exactly that event (byte-equal arguments) or its documented substitute " +
			"(nil big number -> null, NaN via float/decimal/big decimal -> NaN event of the same kind); extended alphabet of ~90 events (every scalar method × boundary values, arrays in all forms, comments, padding, error) to depth 3/4 and the structural C10 alphabet to depth 6/7; " +
			"distinct_nontrivial = distinct (event class, context) pairs checked",
		Assumptions: []string{"nothing is asserted after a rejected event (statement is silent)"},
		TrustedBase: []string{"ev.Drive / ev.Recorder (self-tested: drive->record is the identity)"},
		Guards:      map[string]int64{"accepted_transitions": 10000, "distinct:nontrivial": 300},
		Run: func(c *fx.Ctx) {
			if msg := recorderSelfTest(); msg != "" {
				c.Violation("harness-self-test", msg, nil)
				return
			}
			a := &rsearch{prefix: []ev.E{ev.EBD(), ev.EV(0)}, alphabet: c15Alphabet(), depth: c.Pick(4, 5), split: 2, checkPass: true, mcfg: rulesmodel.Config{LaxMarkers: true}}
			a.run(c)
			b := &rsearch{prefix: []ev.E{ev.EBD(), ev.EV(0)}, alphabet: c10Alphabet(), depth: c.Pick(6, 8), split: 2, checkPass: true, mcfg: rulesmodel.Config{LaxMarkers: true}}
			b.run(c)
			// a reused validator (complete / abandoned document, then Reset) must go on handing every accepted event on
			for i, w := range c10Warmups() {
				rs := &rsearch{warmup: w, tag: []string{"after-complete-doc-and-reset:", "after-aborted-doc-and-reset:"}[i], prefix: []ev.E{ev.EBD(), ev.EV(0)}, alphabet: c10Alphabet(),
					depth: c.Pick(4, 6), split: 2, checkPass: true, mcfg: rulesmodel.Config{LaxMarkers: true}}
				rs.run(c)
				rx := &rsearch{warmup: w, tag: []string{"after-complete-doc-and-reset:", "after-aborted-doc-and-reset:"}[i], prefix: []ev.E{ev.EBD(), ev.EV(0)}, alphabet: c15Alphabet(),
					depth: c.Pick(2, 3), split: 2, checkPass: true, mcfg: rulesmodel.Config{LaxMarkers: true}}
				rx.run(c)
			}
			c15Window(c)
			h := &rsearch{prefix: nil, alphabet: c10Alphabet(), depth: 4, split: 1, checkPass: true, mcfg: rulesmodel.Config{LaxMarkers: true}}
			h.run(c)
		},
		Replay: replayRules(false, true, rulesmodel.Config{LaxMarkers: true}),
	})
}

func recorderSelfTest() string {
	for _, e := range c15Alphabet() {
		r := &ev.Recorder{}
		ev.Drive(r, e)
		if len(r.Events) != 1 || r.Events[0].Key() != e.Key() {
			return "drive->record is not the identity for " + e.Key()
		}
	}
	return ""
}

// c15Window: all pairs and triples of array deliveries (whole, one chunk, split data, two chunks; strings, bytes, media,
// identifiers) in one list, every byte slice handed over through ONE reusable window buffer with spare capacity, as a
// streaming decoder does: what the next receiver gets must still be exactly what was sent.
func c15Window(c *fx.Ctx) {
	forms := [][]ev.E{
		{ev.EArr(events.ArrayTypeString, 3, []byte("abc"))},
		{ev.EABegin(events.ArrayTypeString), ev.EChunk(3, false), ev.EData([]byte("def"))},
		{ev.EABegin(events.ArrayTypeString), ev.EChunk(8, false), ev.EData([]byte("ghi")), ev.EData([]byte("jklmn"))},
		{ev.EABegin(events.ArrayTypeString), ev.EChunk(2, true), ev.EData([]byte("op")), ev.EChunk(3, false), ev.EData([]byte("q")), ev.EData([]byte("rs"))},
		{ev.EABegin(events.ArrayTypeString), ev.EChunk(4, false), ev.EData([]byte("t\xc3")), ev.EData([]byte("\xa9u"))},
		{ev.EArr(events.ArrayTypeUint8, 4, []byte{1, 2, 3, 4})},
		{ev.EABegin(events.ArrayTypeUint16), ev.EChunk(2, false), ev.EData([]byte{5}), ev.EData([]byte{6, 7, 8})},
		{ev.EMedia("a/b", []byte{9, 10, 11})},
		{ev.EMBegin("a/b"), ev.EChunk(5, false), ev.EData([]byte{12, 13}), ev.EData([]byte{14, 15, 16})},
		{ev.EArr(events.ArrayTypeResourceID, 3, []byte("r:x"))},
		{ev.EMarker("mk"), ev.EArr(events.ArrayTypeString, 2, []byte("vw"))},
		{ev.EUID(uidA)},
	}
	run := func(parts ...[]ev.E) {
		doc := []ev.E{ev.EBD(), ev.EV(0), ev.EList()}
		for _, p := range parts {
			doc = append(doc, p...)
		}
		doc = append(doc, ev.EEnd(), ev.EED())
		rec := &ev.Recorder{}
		r := rules.NewRules(rec, configuration.New())
		win := make([]byte, 64)
		c.Add("window_delivery_docs", 1)
		for i, e := range doc {
			before := len(rec.Events)
			if err := ev.TryDriveWindow(r, e, win); err != nil {
				return // duplicate marker ids etc.: not this family's subject
			}
			c.Add("transitions", 1)
			if msg := passThroughDiff(e, rec.Events[before:]); msg != "" {
				c.Violation("passthrough-with-reused-caller-buffer:"+valueClass(e),
					fmt.Sprintf("event %d (%s) of [%s], byte slices delivered through one reused buffer: %s", i, e.Key(), clipS(ev.Join(doc)), msg), rwitness{Events: doc[:i+1]})
				return
			}
		}
	}
	for i := range forms {
		if !c.Take() {
			continue
		}
		for j := range forms {
			run(forms[i], forms[j])
			for k := range forms {
				if i == 10 && k == 10 {
					continue // the same marker twice
				}
				run(forms[i], forms[j], forms[k])
			}
		}
	}
}

func c15Alphabet() []ev.E {
	big70 := pow2(70)
	snan := math.Float64frombits(0x7ff0000000000001)
	qnanPayload := math.Float64frombits(0x7ff8000000000123)
	negZero := math.Copysign(0, -1)
	dec := func(s string) *apd.Decimal { d, _, _ := apd.NewFromString(s); return d }
	out := []ev.E{
		ev.ENull(), ev.EBool(true), ev.EBool(false), ev.ETrue(), ev.EFalse(),
		ev.EPInt(0), ev.EPInt(1), ev.EPInt(math.MaxUint64),
		ev.ENInt(0), ev.ENInt(1), ev.ENInt(1 << 63), ev.ENInt(math.MaxUint64),
		ev.EInt(0), ev.EInt(-1), ev.EInt(math.MinInt64), ev.EInt(math.MaxInt64),
		ev.EBigInt(nil), ev.EBigInt(big.NewInt(0)), ev.EBigInt(big70), ev.EBigInt(new(big.Int).Neg(big70)),
		ev.EFloat(0), ev.EFloat(negZero), ev.EFloat(1.5), ev.EFloat(math.Inf(1)), ev.EFloat(math.Inf(-1)), ev.EFloat(math.NaN()), ev.EFloat(snan), ev.EFloat(qnanPayload),
		ev.EFloat(math.Float64frombits(0x7ff8000000000000)), ev.EFloat(math.Float64frombits(0xfff8000000000000)), ev.EFloat(math.Float64frombits(0xfff0000000000001)), ev.EFloat(math.Float64frombits(0x7ff7ffffffffffff)),
		ev.EBigFloat(nil), ev.EBigFloat(big.NewFloat(1.5)), ev.EBigFloat(new(big.Float).SetInf(true)), ev.EBigFloat(new(big.Float).SetPrec(200).SetInt(big70)),
		ev.EDFloat(compact_float.DFloatValue(0, 0)), ev.EDFloat(compact_float.NegativeZero()), ev.EDFloat(compact_float.DFloatValue(-1, 15)), ev.EDFloat(compact_float.Infinity()),
		ev.EDFloat(compact_float.NegativeInfinity()), ev.EDFloat(compact_float.QuietNaN()), ev.EDFloat(compact_float.SignalingNaN()),
		ev.EBigDec(nil), ev.EBigDec(dec("1.5")), ev.EBigDec(dec("-0")), ev.EBigDec(dec("NaN")), ev.EBigDec(dec("sNaN")), ev.EBigDec(dec("Infinity")), ev.EBigDec(dec("-Infinity")),
		ev.EBigDec(dec("1234567890123456789012345678901234567890e-100")),
		ev.EUID(uidA), ev.ENaN(true), ev.ENaN(false),
		ev.ETime(compact_time.NewDate(2000, 1, 15)), ev.ETime(compact_time.NewTime(23, 59, 59, 999999999, compact_time.TZAtAreaLocation("Europe/Berlin"))),
		ev.ETime(compact_time.NewTimestamp(-2000, 12, 31, 0, 0, 0, 1, compact_time.TZAtLatLong(-1234, 5678))),
		ev.ETime(compact_time.ZeroDate()), ev.ETime(compact_time.ZeroTime()), ev.ETime(compact_time.ZeroTimestamp()), ev.ETime(compact_time.Time{}),
		ev.EStr(""), ev.EStr("aé€𝄞"), ev.EArr(events.ArrayTypeString, 2, []byte("ab")), ev.ESArr(events.ArrayTypeResourceID, "http://x"),
		ev.EArr(events.ArrayTypeResourceID, 1, []byte("r")), ev.ESArr(events.ArrayTypeReferenceRemote, "http://y"),
		ev.EArr(events.ArrayTypeUint8, 3, []byte{1, 2, 3}), ev.EArr(events.ArrayTypeUint16, 1, []byte{1, 2}), ev.EArr(events.ArrayTypeBit, 9, []byte{0xff, 0x01}),
		ev.EArr(events.ArrayTypeFloat64, 1, []byte{1, 2, 3, 4, 5, 6, 7, 8}), ev.EArr(events.ArrayTypeUID, 1, uidA), ev.EArr(events.ArrayTypeInt32, 0, []byte{}),
		ev.EMedia("a/b", []byte{1, 2}), ev.EMedia("", []byte{}), ev.ECustomBin(0, []byte{}), ev.ECustomBin(math.MaxUint64, []byte{9}), ev.ECustomText(7, "txt"),
		ev.EABegin(events.ArrayTypeString), ev.EABegin(events.ArrayTypeUint16), ev.EABegin(events.ArrayTypeBit), ev.EMBegin("a/b"), ev.ECBegin(events.ArrayTypeCustomBinary, 5), ev.ECBegin(events.ArrayTypeCustomText, 6),
		ev.EChunk(0, false), ev.EChunk(0, true), ev.EChunk(2, false), ev.EChunk(2, true), ev.EData([]byte("a")), ev.EData([]byte{0xc3}), ev.EData([]byte{0xa9}), ev.EData([]byte{}), ev.EData([]byte{1, 2}),
		ev.EList(), ev.EMap(), ev.EEnd(), ev.EEdge(), ev.ENode(), ev.ERecType("x"), ev.ERec("x"), ev.EMarker("m"), ev.ERef("m"),
		ev.EPad(), ev.ECom(false, "c"), ev.ECom(true, "multi\nline /* nested */"), ev.ECom(false, ""), ev.ECom(false, "two\nlines"), ev.ECom(true, ""), ev.E{K: ev.Error}, ev.EED(),
	}
	return out
}

var _ = utf8.RuneLen
