package checks

import (
	compact_time "github.com/kstenerud/go-compact-time"
	"github.com/kstenerud/go-concise-encoding/ce/events"
	"verif/harness/internal/ev"
	"verif/harness/internal/fx"
	"verif/harness/internal/rulesmodel"
)

var uidA = []byte{0, 1, 2, 3, 4, 5, 6, 7, 8, 9, 10, 11, 12, 13, 14, 15}

func dateA() compact_time.Time { return compact_time.NewDate(2000, 1, 15) }

// c10Alphabet: structural and scalar events of the abstract alphabet (DESIGN §3 C10).
func c10Alphabet() []ev.E {
	return []ev.E{
		ev.EBD(), ev.EV(0), ev.EV(1), ev.EED(),
		ev.ENull(), ev.ETrue(), ev.EPInt(1), ev.EPInt(2), ev.EFloat(1.5), ev.ENaN(false),
		ev.EUID(uidA), ev.ETime(dateA()),
		ev.EStr("a"), ev.EStr("b"), ev.ESArr(events.ArrayTypeResourceID, "a"),
		ev.EArr(events.ArrayTypeUint8, 1, []byte{1}),
		ev.EABegin(events.ArrayTypeString), ev.EChunk(1, false), ev.EData([]byte("a")),
		ev.EList(), ev.EMap(), ev.EEnd(), ev.EEdge(), ev.ENode(),
		ev.ERecType("x"), ev.ERecType("y"), ev.ERec("x"), ev.ERec("y"),
		ev.EMarker("m"), ev.ERef("m"),
		ev.EMedia("a/b", []byte{1}), ev.ECustomBin(1, []byte{1}),
	}
}

// c10Warmups: histories that leave every side table of the validator populated before Reset().
func c10Warmups() [][]ev.E {
	full := []ev.E{ev.EBD(), ev.EV(0), ev.ERecType("x"), ev.EStr("k"), ev.EEnd(), ev.ERecType("y"), ev.EEnd(),
		ev.EList(), ev.EMarker("m"), ev.EMap(), ev.EStr("a"), ev.EPInt(1), ev.EPInt(2), ev.ERef("n"), ev.EEnd(), ev.ERec("x"), ev.ENull(), ev.EEnd(),
		ev.EMarker("n"), ev.EStr("s"), ev.ERef("m"), ev.EABegin(events.ArrayTypeString), ev.EChunk(2, false), ev.EData([]byte("\xc3\xa9")), ev.EEdge(), ev.EPInt(1), ev.ENull(), ev.EPInt(2), ev.EEnd(),
		ev.EEnd(), ev.EED()}
	aborted := []ev.E{ev.EBD(), ev.EV(0), ev.ERecType("x"), ev.EStr("k"), ev.EEnd(), ev.EList(), ev.ERef("q"), ev.EMarker("m"), ev.EMap(), ev.EStr("a"), ev.ENull(),
		ev.EMarker("z"), ev.EABegin(events.ArrayTypeString), ev.EChunk(3, true), ev.EData([]byte("a\xc3"))}
	return [][]ev.E{full, aborted}
}

func init() {
	register(&fx.Check{
		ID:    "C10",
		Level: "model_checking",
		Rule: "explicit-state BFS over all event sequences (alphabet of 32 abstract events after BD V0) up to the stated depth; every transition is one On* call on a fresh real " +
			"rules.RulesEventReceiver (path replay + 1 event) compared with the reference pushdown automaton; states merged on (reflective implementation state, model state); " +
			"distinct_nontrivial = distinct merged states reached",
		Assumptions: []string{
			"128-bit truncated SHA-256 of the canonical state string is collision-free on the explored set",
			"monotone counters objectCount/LocalReferenceCount are dropped from the state key: limits (10^6/10^4) are unreachable within the depth bound",
			"don't-cares (model verdict 'either'): float as map key, -0 as key, reference at top level / to null in an edge, padding/comments",
		},
		TrustedBase: []string{"harness reference automaton internal/rulesmodel", "ev.Drive/ev.Recorder", "reflect-based state canonicaliser"},
		Guards:      map[string]int64{"accepted_transitions": 1000, "rejected_transitions": 1000, "complete_documents": 100, "states": 1000},
		Run: func(c *fx.Ctx) {
			// header search: everything that can happen around BD / version
			h := &rsearch{prefix: nil, alphabet: c10Alphabet(), depth: 4, split: 1, checkVerdict: true, mcfg: rulesmodel.Config{LaxMarkers: true}}
			h.run(c)
			// main search after the fixed header
			s := &rsearch{prefix: []ev.E{ev.EBD(), ev.EV(0)}, alphabet: c10Alphabet(), depth: c.Pick(7, 9), split: 2, checkVerdict: true, mcfg: rulesmodel.Config{LaxMarkers: true}}
			s.run(c)
			// the same search from reused instances: after a complete document + Reset(), and after a document
			// aborted inside a chunked map key + Reset()
			for i, w := range c10Warmups() {
				rs := &rsearch{warmup: w, tag: []string{"after-complete-doc-and-reset:", "after-aborted-doc-and-reset:"}[i], prefix: []ev.E{ev.EBD(), ev.EV(0)}, alphabet: c10Alphabet(),
					depth: c.Pick(5, 7), split: 2, checkVerdict: true, mcfg: rulesmodel.Config{LaxMarkers: true}}
				rs.run(c)
			}
		},
		Replay: replayRules(true, false, rulesmodel.Config{LaxMarkers: true}),
	})
}
