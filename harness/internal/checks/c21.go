package checks

import (
	"encoding/json"
	"fmt"
	"math/big"
	"reflect"
	"regexp"
	"sort"
	"strconv"
	"strings"

	compact_time "github.com/kstenerud/go-compact-time"
	"github.com/kstenerud/go-concise-encoding/cbe"
	"github.com/kstenerud/go-concise-encoding/ce/events"
	"github.com/kstenerud/go-concise-encoding/configuration"
	"github.com/kstenerud/go-concise-encoding/cte"
	"github.com/kstenerud/go-concise-encoding/iterator"
	"verif/harness/internal/codec"
	"verif/harness/internal/ev"
	"verif/harness/internal/fx"
	"verif/harness/internal/gen"
)

type c21Witness struct {
	Fields []c21Field `json:"fields"`
	Style  int        `json:"field_name_style"`
	Omit   int        `json:"default_omit_behavior"`
	Doc    []ev.E     `json:"document,omitempty"`
	CaseIn bool       `json:"case_insensitive"`
	Format string     `json:"format,omitempty"`
	Seq    bool       `json:"two_values_of_one_type,omitempty"` // Fields = first value's fields followed by the second's
}

// C21In is the embedded struct type of the embedding cases (must be exported to be embeddable via reflect.StructOf).
type C21In struct {
	Secret  string
	Created int
}

type c21Field struct {
	Name  string `json:"name"`
	Tag   string `json:"ce_tag"`
	Val   string `json:"value_kind"`
	Embed bool   `json:"embedded,omitempty"`
}

var c21Seven = 7

func c21Value(kind string) (reflect.Type, reflect.Value) {
	var v interface{}
	switch kind {
	case "int0":
		v = 0
	case "int5":
		v = 5
	case "str0":
		v = ""
	case "strS":
		v = "s"
	case "ptrNil":
		v = (*int)(nil)
	case "ptr7":
		v = &c21Seven
	case "sliceNil":
		v = []int(nil)
	case "sliceEmpty":
		v = []int{}
	case "slice1":
		v = []int{1}
	case "mapNil":
		v = map[string]int(nil)
	case "map1":
		v = map[string]int{"k": 1}
	case "arr0":
		v = [0]int{}
	case "embed":
		v = C21In{"sec", 9}
	case "embed0":
		v = C21In{}
	}
	return reflect.TypeOf(v), reflect.ValueOf(v)
}

func c21Build(fields []c21Field) (reflect.Value, bool) {
	var sf []reflect.StructField
	seen := map[string]bool{}
	for _, f := range fields {
		if seen[f.Name] {
			return reflect.Value{}, false
		}
		seen[f.Name] = true
		t, _ := c21Value(f.Val)
		tag := reflect.StructTag("")
		if f.Tag != "" {
			tag = reflect.StructTag(`ce:"` + f.Tag + `"`)
		}
		if f.Embed {
			sf = append(sf, reflect.StructField{Name: "C21In", Type: t, Tag: tag, Anonymous: true})
		} else {
			sf = append(sf, reflect.StructField{Name: f.Name, Type: t, Tag: tag})
		}
	}
	var st reflect.Type
	if err := safeCall(func() error { st = reflect.StructOf(sf); return nil }); err != nil {
		return reflect.Value{}, false
	}
	s := reflect.New(st).Elem()
	for i, f := range fields {
		_, v := c21Value(f.Val)
		s.Field(i).Set(v)
	}
	return s, true
}

// ---- reference model written from the property text and the documented tag syntax ----

var snakeA = regexp.MustCompile(`([A-Z]+)([A-Z][a-z])`)
var snakeB = regexp.MustCompile(`([a-z0-9])([A-Z])`)

func refSnake(s string) string {
	s = snakeA.ReplaceAllString(s, "${1}_${2}")
	return strings.ToLower(snakeB.ReplaceAllString(s, "${1}_${2}"))
}

type c21Tags struct {
	name    string
	hasName bool
	omit    string // "", always, empty, zero, never
	order   int64
}

func c21ParseTag(tag string, fieldName string) c21Tags {
	t := c21Tags{name: fieldName, order: 1 << 62}
	for _, e := range strings.Split(tag, ",") {
		e = strings.TrimSpace(e)
		switch {
		case e == "omit":
			t.omit = "always"
		case e == "omit_empty":
			t.omit = "empty"
		case e == "omit_zero":
			t.omit = "zero"
		case e == "omit_never":
			t.omit = "never"
		default:
			if i := strings.IndexByte(e, '='); i > 0 {
				k, v := strings.TrimSpace(e[:i]), strings.TrimSpace(e[i+1:])
				switch k {
				case "name":
					t.name, t.hasName = v, true
				case "order":
					t.order, _ = strconv.ParseInt(v, 10, 64)
				}
			}
		}
	}
	return t
}

func c21Empty(v reflect.Value) bool { return isEmptyValue(v) }

type c21Kept struct {
	names []string // acceptable spellings of the key
	val   reflect.Value
	order int64
	decl  int
}

// c21Model: the fields a struct emits, in order.
func c21Model(s reflect.Value, fields []c21Field, style configuration.FieldNameStyle, defOmit configuration.FieldOmitBehavior) []c21Kept {
	var kept []c21Kept
	decl := 0
	var walk func(sv reflect.Value, fs []c21Field)
	consider := func(name, tag string, v reflect.Value) {
		t := c21ParseTag(tag, name)
		om := t.omit
		if om == "" {
			om = map[configuration.FieldOmitBehavior]string{configuration.OmitFieldNever: "never", configuration.OmitFieldAlways: "always", configuration.OmitFieldEmpty: "empty", configuration.OmitFieldZero: "zero",
				configuration.OmitFieldChooseDefault: "never"}[defOmit]
		}
		keep := true
		switch om {
		case "always":
			keep = false
		case "empty":
			keep = !c21Empty(v)
		case "zero":
			keep = !(v.IsZero() || c21Empty(v))
		}
		decl++
		if !keep {
			return
		}
		names := []string{t.name}
		if style == configuration.FieldNameSnakeCase {
			names = []string{refSnake(t.name)}
			if t.hasName {
				names = append(names, t.name) // whether a tagged name is also snake-cased is a don't-care
			}
		}
		kept = append(kept, c21Kept{names: names, val: v, order: t.order, decl: decl})
	}
	walk = func(sv reflect.Value, fs []c21Field) {
		for i, f := range fs {
			if f.Embed {
				t := c21ParseTag(f.Tag, "C21In")
				if t.omit == "always" {
					decl++
					continue
				}
				in := sv.Field(i)
				consider("Secret", "", in.Field(0))
				consider("Created", "", in.Field(1))
				continue
			}
			consider(f.Name, f.Tag, sv.Field(i))
		}
	}
	walk(s, fields)
	sort.SliceStable(kept, func(i, j int) bool { return kept[i].order < kept[j].order })
	return kept
}

// c21CompareMap: the emitted map against the model's kept fields (set, order, names, values).
func c21CompareMap(tree *tnode, want []c21Kept, fields []c21Field, es []ev.E) (kind, msg string) {
	describe := func() string {
		var ws []string
		for _, k := range want {
			ws = append(ws, k.names[0])
		}
		return fmt.Sprintf("model keys %v; events [%s]", ws, clipS(ev.Join(es)))
	}
	if len(tree.children) != 2*len(want) {
		return "wrong-field-set", fmt.Sprintf("struct %v emits %d fields, expected %d: %s", fields, len(tree.children)/2, len(want), describe())
	}
	for i, k := range want {
		key := tree.children[2*i]
		okName := false
		for _, n := range k.names {
			if key.kind == tString && string(key.data) == n {
				okName = true
			}
		}
		if !okName {
			// distinguish "right set, wrong order" from "wrong name"
			kind := "wrong-name"
			for _, k2 := range want {
				for _, n := range k2.names {
					if key.kind == tString && string(key.data) == n {
						kind = "wrong-order"
					}
				}
			}
			return kind, fmt.Sprintf("struct %v: field %d is emitted under %s, expected %v: %s", fields, i, key, k.names, describe())
		}
		m := &matcher{omitEmpty: true}
		if msg := m.match(tree.children[2*i+1], k.val, "$."+k.names[0]); msg != "" {
			return "wrong-value", fmt.Sprintf("struct %v: %s", fields, msg)
		}
	}
	return "", ""
}

// c21MarshalSeq: two values of ONE struct type (different fields omitted in each), as two elements of a slice and as two
// documents from one iterator: what the first value omits must not change what the second emits.
func c21MarshalSeq(c *fx.Ctx, f1, f2 []c21Field, style configuration.FieldNameStyle, defOmit configuration.FieldOmitBehavior) {
	s1, ok1 := c21Build(f1)
	s2, ok2 := c21Build(f2)
	if !ok1 || !ok2 || s1.Type() != s2.Type() {
		return
	}
	cfg := configuration.New()
	cfg.Iterator.FieldNameStyle = style
	cfg.Iterator.DefaultFieldOmitBehavior = defOmit
	w := c21Witness{Fields: append(append([]c21Field{}, f1...), f2...), Style: int(style), Omit: int(defOmit), Seq: true}
	sig := fmt.Sprintf("marshal:sequence:style%d:omit%d", style, defOmit)
	c.Add("evaluations", 1)
	c.Add("marshal_sequence_cases", 1)
	// (a) two elements of one slice
	sl := reflect.MakeSlice(reflect.SliceOf(s1.Type()), 0, 2)
	sl = reflect.Append(reflect.Append(sl, s1), s2)
	es, err := iterateEvents(sl.Interface(), cfg, false)
	if err != nil {
		c.Violation(sig+":iterate-fails:"+errClass(err), fmt.Sprintf("iterating [%v %v] fails: %v", f1, f2, err), w)
		return
	}
	tree, terr := treeOf(es)
	if terr != nil || tree.kind != tList || len(tree.children) != 2 {
		c.Violation(sig+":not-a-list-of-two", fmt.Sprintf("events of [%v %v]: [%s] (%v)", f1, f2, clipS(ev.Join(es)), terr), w)
		return
	}
	for i, sv := range []reflect.Value{s1, s2} {
		fs := [][]c21Field{f1, f2}[i]
		if tree.children[i].kind != tMap {
			c.Violation(sig+":not-a-map", fmt.Sprintf("element %d of [%v %v]: [%s]", i, f1, f2, clipS(ev.Join(es))), w)
			return
		}
		if kind, msg := c21CompareMap(tree.children[i], c21Model(sv, fs, style, defOmit), fs, es); kind != "" {
			c.Violation(fmt.Sprintf("%s:element-%d:%s", sig, i, kind), "slice of two values of one struct type: "+msg, w)
			return
		}
	}
	// (b) two documents from one root iterator
	rec := &ev.Recorder{}
	it := iterator.NewSession(nil, cfg).NewIterator(rec)
	for i, sv := range []reflect.Value{s1, s2} {
		fs := [][]c21Field{f1, f2}[i]
		rec.Reset()
		if err := safeCall(func() error { it.Iterate(sv.Interface()); return nil }); err != nil {
			c.Violation(sig+":reused-iterator-fails:"+errClass(err), fmt.Sprintf("document %d on one iterator (%v): %v", i, fs, err), w)
			return
		}
		t, terr := treeOf(rec.Events)
		if terr != nil || t.kind != tMap {
			c.Violation(sig+":reused-iterator-not-a-map", fmt.Sprintf("document %d on one iterator (%v): [%s] (%v)", i, fs, clipS(ev.Join(rec.Events)), terr), w)
			return
		}
		if kind, msg := c21CompareMap(t, c21Model(sv, fs, style, defOmit), fs, rec.Events); kind != "" {
			c.Violation(fmt.Sprintf("%s:document-%d-on-one-iterator:%s", sig, i, kind), msg, w)
			return
		}
	}
	c.Distinct("nontrivial", fmt.Sprintf("seq|%v|%v|%d|%d", f1, f2, style, defOmit))
}

func c21Marshal(c *fx.Ctx, fields []c21Field, style configuration.FieldNameStyle, defOmit configuration.FieldOmitBehavior, family string) {
	s, ok := c21Build(fields)
	if !ok {
		return
	}
	cfg := configuration.New()
	cfg.Iterator.FieldNameStyle = style
	cfg.Iterator.DefaultFieldOmitBehavior = defOmit
	es, err := iterateEvents(s.Interface(), cfg, false)
	c.Add("evaluations", 1)
	c.Add("marshal_cases", 1)
	w := c21Witness{Fields: fields, Style: int(style), Omit: int(defOmit)}
	sig := fmt.Sprintf("marshal:%s:style%d:omit%d", family, style, defOmit)
	if err != nil {
		c.Violation(sig+":iterate-fails:"+errClass(err), fmt.Sprintf("iterating %v fails: %v", fields, err), w)
		return
	}
	tree, terr := treeOf(es)
	if terr != nil || tree.kind != tMap {
		c.Violation(sig+":not-a-map", fmt.Sprintf("events of %v: [%s] (%v)", fields, clipS(ev.Join(es)), terr), w)
		return
	}
	if kind, msg := c21CompareMap(tree, c21Model(s, fields, style, defOmit), fields, es); kind != "" {
		c.Violation(sig+":"+kind, msg, w)
		return
	}
	c.Distinct("nontrivial", fmt.Sprintf("%v|%d|%d", fields, style, defOmit))
	if c.Index()%53 == 0 {
		c.Sample(map[string]interface{}{"fields": fields, "style": int(style), "default_omit": int(defOmit), "events": clipS(ev.Join(es))})
	}
}

// ---- unmarshal side ----

// c21UnknownKinds: the values an unmatched key may carry; the full set for the exact spellings, four kinds otherwise.
func c21UnknownKinds(all bool) []string {
	if all {
		return []string{"scalar", "string", "list", "map", "media", "edge", "node", "typed-array", "chunked-string", "time", "uid", "null", "bigint", "rid", "float"}
	}
	return []string{"scalar", "string", "list", "map"}
}

func c21Norm(s string) string {
	return strings.ReplaceAll(strings.ReplaceAll(strings.ToLower(s), "_", ""), " ", "")
}

type c21UField struct {
	goName string
	tag    string
}

// c21Unmarshal: a struct with int fields; document = map of (key -> distinct int); oracle per field.
func c21Unmarshal(c *fx.Ctx, fs []c21UField, keys []string, unknownAt int, unknownKind string, caseIn bool, f codec.Format) {
	var sf []reflect.StructField
	for _, x := range fs {
		tag := reflect.StructTag("")
		if x.tag != "" {
			tag = reflect.StructTag(`ce:"` + x.tag + `"`)
		}
		sf = append(sf, reflect.StructField{Name: x.goName, Type: reflect.TypeOf(0), Tag: tag})
	}
	var st reflect.Type
	if err := safeCall(func() error { st = reflect.StructOf(sf); return nil }); err != nil {
		return
	}
	doc := []ev.E{ev.EBD(), ev.EV(0), ev.EMap()}
	for i, k := range keys {
		if i == unknownAt {
			doc = append(doc, ev.EStr("zz_unknown"))
			switch unknownKind {
			case "scalar":
				doc = append(doc, ev.EPInt(999))
			case "list":
				doc = append(doc, ev.EList(), ev.EPInt(1), ev.EList(), ev.EEnd(), ev.EEnd())
			case "map":
				doc = append(doc, ev.EMap(), ev.EStr("a"), ev.EMap(), ev.EEnd(), ev.EEnd())
			case "string":
				doc = append(doc, ev.EStr("a string of more than fifteen bytes"))
			case "media":
				doc = append(doc, ev.EMedia("image/png", []byte{0x89, 0x50, 0x4e, 0x47}))
			case "edge":
				doc = append(doc, ev.EEdge(), ev.EStr("a"), ev.EStr("b"), ev.EStr("c"), ev.EEnd())
			case "node":
				doc = append(doc, ev.ENode(), ev.EPInt(1), ev.EList(), ev.EEnd(), ev.EPInt(2), ev.EEnd())
			case "typed-array":
				doc = append(doc, ev.EArr(events.ArrayTypeUint16, 2, []byte{1, 0, 2, 0}))
			case "chunked-string":
				doc = append(doc, ev.EABegin(events.ArrayTypeString), ev.EChunk(2, true), ev.EData([]byte("ab")), ev.EChunk(1, false), ev.EData([]byte("c")))
			case "time":
				doc = append(doc, ev.ETime(compact_time.NewTimestamp(2020, 1, 15, 10, 0, 1, 5, compact_time.TZAtAreaLocation("Europe/Berlin"))))
			case "uid":
				doc = append(doc, ev.EUID([]byte{1, 2, 3, 4, 5, 6, 7, 8, 9, 10, 11, 12, 13, 14, 15, 16}))
			case "null":
				doc = append(doc, ev.ENull())
			case "bigint":
				doc = append(doc, ev.EBigInt(new(big.Int).Lsh(big.NewInt(1), 80)))
			case "rid":
				doc = append(doc, ev.ESArr(events.ArrayTypeResourceID, "http://x.y/z"))
			case "float":
				doc = append(doc, ev.EFloat(1.5))
			}
		}
		doc = append(doc, ev.EStr(k), ev.EPInt(uint64(100+i)))
	}
	doc = append(doc, ev.EEnd(), ev.EED())
	enc, _, err := codec.Encode(f, doc, nil, true)
	if err != nil {
		return // duplicate keys etc.: not a valid document
	}
	cfg := configuration.New()
	cfg.Builder.CaseInsensitiveStructFieldNames = caseIn
	tpl := reflect.New(st).Elem().Interface()
	var got interface{}
	perr := safeCall(func() error {
		if f == codec.CBE {
			got, err = cbe.NewUnmarshaler(cfg).UnmarshalFromDocument(enc, tpl)
		} else {
			got, err = cte.NewUnmarshaler(cfg).UnmarshalFromDocument(enc, tpl)
		}
		return nil
	})
	c.Add("evaluations", 1)
	c.Add("unmarshal_cases", 1)
	var wf []c21Field
	for _, x := range fs {
		wf = append(wf, c21Field{Name: x.goName, Tag: x.tag, Val: "int"})
	}
	w := c21Witness{Fields: wf, Doc: doc, CaseIn: caseIn, Format: f.String()}
	sig := fmt.Sprintf("unmarshal:%s:case-insensitive=%v:unknown-%s", f, caseIn, map[bool]string{true: unknownKind, false: "none"}[unknownAt >= 0])
	if perr != nil || err != nil {
		e := err
		if perr != nil {
			e = perr
		}
		c.Violation(sig+":fails:"+errClass(e), fmt.Sprintf("unmarshal of [%s] into struct %v fails: %v", clipS(ev.Join(doc)), fs, e), w)
		return
	}
	gv := deref(reflect.ValueOf(got))
	if !gv.IsValid() || gv.Kind() != reflect.Struct {
		c.Violation(sig+":no-struct", fmt.Sprintf("unmarshal returns %s", clipS(valueKey(got))), w)
		return
	}
	// exact names and normalised names of each field
	exact := make([]string, len(fs))
	for i, x := range fs {
		exact[i] = c21ParseTag(x.tag, x.goName).name
	}
	for fi := range fs {
		// which keys must / may set this field
		var must, may []int
		for ki, k := range keys {
			switch {
			case caseIn:
				n := 0
				for fj := range fs {
					if c21Norm(k) == c21Norm(exact[fj]) {
						n++
					}
				}
				if c21Norm(k) == c21Norm(exact[fi]) {
					if n == 1 {
						must = append(must, ki)
					} else {
						may = append(may, ki)
					}
				}
			default:
				if k == exact[fi] {
					unique := true
					for fj := range fs {
						if fj != fi && exact[fj] == k {
							unique = false
						}
					}
					if unique {
						must = append(must, ki)
					} else {
						may = append(may, ki)
					}
				} else if c21Norm(k) == c21Norm(exact[fi]) {
					may = append(may, ki) // differs in case/underscores only: not judged in case-sensitive mode
				}
			}
		}
		have := gv.Field(fi).Int()
		allowed := map[int64]bool{}
		for _, ki := range must {
			allowed[int64(100+ki)] = true
		}
		for _, ki := range may {
			allowed[int64(100+ki)] = true
		}
		if len(must) == 0 {
			allowed[0] = true
		}
		if !allowed[have] {
			kind := "field-not-set"
			if have != 0 {
				kind = "field-set-from-wrong-key"
			}
			c.Violation(sig+":"+kind, fmt.Sprintf("document [%s] into struct %v: field %s (name %q) is %d, allowed %v", clipS(ev.Join(doc)), fs, fs[fi].goName, exact[fi], have, allowed), w)
			return
		}
	}
	c.Distinct("nontrivial", fmt.Sprintf("u|%v|%v|%d|%s|%v", fs, keys, unknownAt, unknownKind, caseIn))
}

func c21Run(c *fx.Ctx) {
	names := []string{"A", "Ab", "AbCd", "ABc", "A1b", "URLValue", "Sha256Sum", "Int8Value", "Ärger", "Ωmega"}
	tags := []string{"", "omit", "omit_empty", "omit_zero", "omit_never", "name=x", "name=MixedCase", "order=1", "order=2", "order=-1", "omit_empty,name=y,order=3", " omit_zero , name = spaced "}
	vals := []string{"int0", "int5", "str0", "strS", "ptrNil", "ptr7", "sliceNil", "sliceEmpty", "slice1", "mapNil", "map1", "arr0"}
	styles := []configuration.FieldNameStyle{configuration.FieldNameCamelCase, configuration.FieldNameSnakeCase}
	omits := []configuration.FieldOmitBehavior{configuration.OmitFieldNever, configuration.OmitFieldAlways, configuration.OmitFieldEmpty, configuration.OmitFieldZero}
	// 1. every single field (name × tag × value) under every configuration
	for _, n := range names {
		for _, t := range tags {
			if !c.Take() {
				continue
			}
			for _, v := range vals {
				for _, st := range styles {
					for _, om := range omits {
						c21Marshal(c, []c21Field{{Name: n, Tag: t, Val: v}}, st, om, "one-field")
					}
				}
			}
		}
	}
	// 2. all pairs of tags on two fields (order, omission, names interact), with an embedded struct in between
	for _, t1 := range tags {
		for _, t2 := range tags {
			if !c.Take() {
				continue
			}
			for _, vv := range [][2]string{{"int5", "sliceNil"}, {"int0", "strS"}, {"ptrNil", "map1"}} {
				for _, st := range styles {
					for _, om := range omits {
						c21Marshal(c, []c21Field{{Name: "AbCd", Tag: t1, Val: vv[0]}, {Name: "URLValue", Tag: t2, Val: vv[1]}}, st, om, "two-fields")
					}
				}
			}
			for _, et := range []string{"", "omit", "omit_never"} {
				for _, ev2 := range []string{"embed", "embed0"} {
					c21Marshal(c, []c21Field{{Name: "ID", Tag: t1, Val: "int5"}, {Name: "C21In", Tag: et, Val: ev2, Embed: true}, {Name: "Title", Tag: t2, Val: "strS"}}, configuration.FieldNameSnakeCase, configuration.OmitFieldEmpty, "embedded")
					c21Marshal(c, []c21Field{{Name: "ID", Tag: t1, Val: "int5"}, {Name: "C21In", Tag: et, Val: ev2, Embed: true}, {Name: "Title", Tag: t2, Val: "strS"}}, configuration.FieldNameCamelCase, configuration.OmitFieldNever, "embedded")
				}
			}
		}
	}
	// 2b. (thorough) all triples of tags on three fields
	if c.Thorough() {
		for _, t1 := range tags {
			for _, t2 := range tags {
				if !c.Take() {
					continue
				}
				for _, t3 := range tags {
					for _, st := range styles {
						for _, om := range omits {
							c21Marshal(c, []c21Field{{Name: "AbCd", Tag: t1, Val: "int5"}, {Name: "URLValue", Tag: t2, Val: "sliceNil"}, {Name: "Sha256Sum", Tag: t3, Val: "strS"}}, st, om, "three-fields")
							c21Marshal(c, []c21Field{{Name: "AbCd", Tag: t1, Val: "int0"}, {Name: "URLValue", Tag: t2, Val: "map1"}, {Name: "Sha256Sum", Tag: t3, Val: "ptrNil"}}, st, om, "three-fields")
						}
					}
				}
			}
		}
	}
	// 3. order tags on three and four fields: every assignment over {none, 1, 2, -1, 1}
	ord := []string{"", "order=1", "order=2", "order=-1", "order=1,omit_never"}
	for a := range ord {
		for b := range ord {
			if !c.Take() {
				continue
			}
			for d := range ord {
				for e := range ord {
					c21Marshal(c, []c21Field{{Name: "F1", Tag: ord[a], Val: "int5"}, {Name: "F2", Tag: ord[b], Val: "strS"}, {Name: "F3", Tag: ord[d], Val: "int5"}, {Name: "F4", Tag: ord[e], Val: "slice1"}}, configuration.FieldNameSnakeCase, configuration.OmitFieldEmpty, "order")
				}
			}
		}
	}
	// 3b. sequences of two values of one struct type: every pair of value assignments over three fields × omit tags
	seqVals := [][3]string{{"int0", "str0", "sliceNil"}, {"int5", "strS", "slice1"}, {"int0", "strS", "sliceNil"}, {"int5", "str0", "slice1"}, {"int0", "str0", "slice1"}}
	for _, tg := range [][3]string{{"", "", ""}, {"omit_empty", "", "omit_zero"}, {"", "omit_never", ""}, {"order=2", "", "order=1"}, {"omit", "", ""}} {
		if !c.Take() {
			continue
		}
		for _, va := range seqVals {
			for _, vb := range seqVals {
				mk := func(v [3]string) []c21Field {
					return []c21Field{{Name: "Alpha", Tag: tg[0], Val: v[0]}, {Name: "Beta", Tag: tg[1], Val: v[1]}, {Name: "Gamma", Tag: tg[2], Val: v[2]}}
				}
				for _, st := range styles {
					for _, om := range omits {
						c21MarshalSeq(c, mk(va), mk(vb), st, om)
					}
				}
			}
		}
	}
	// 3c. promoted fields of embedded structs at every depth
	for _, g := range gen.ExtraValues() {
		if g.Class == "embedded" && reflect.TypeOf(g.V).Kind() == reflect.Struct && c.Take() {
			c21Embedded(c, g)
		}
	}
	// 4. unmarshal: key spellings × unknown keys × case sensitivity
	ufs := [][]c21UField{
		{{"AbCd", ""}, {"URLValue", ""}},
		{{"First", "name=value"}, {"Value", ""}},
		{{"Value", ""}, {"Other", "name=value"}},
		{{"Sha256Sum", ""}, {"Plain", "name=MixedCase"}},
		{{"A", "name=the_name"}, {"TheName2", ""}},
		{{"Ärger", ""}, {"Ωmega", ""}},
	}
	for _, fs := range ufs {
		// key spellings per field: exact, snake, lower, upper, with underscores
		var spell [][]string
		for _, x := range fs {
			e := c21ParseTag(x.tag, x.goName).name
			spell = append(spell, []string{e, refSnake(e), strings.ToLower(e), strings.ToUpper(e), "_" + e + "_", strings.ToUpper(e[:1]) + "_" + e[1:], e + "x", e[:1] + "__" + e[1:], "__" + strings.ToLower(e), e + "___"})
		}
		for _, k0 := range spell[0] {
			for _, k1 := range spell[1] {
				if !c.Take() {
					continue
				}
				for _, caseIn := range []bool{true, false} {
					for _, f := range []codec.Format{codec.CBE, codec.CTE} {
						c21Unmarshal(c, fs, []string{k0, k1}, -1, "", caseIn, f)
						c21Unmarshal(c, fs, []string{k1, k0}, -1, "", caseIn, f)
						for pos := 0; pos <= 1; pos++ {
							for _, uk := range c21UnknownKinds(k0 == spell[0][0] && k1 == spell[1][0]) {
								c21Unmarshal(c, fs, []string{k0, k1}, pos, uk, caseIn, f)
							}
						}
					}
				}
			}
		}
	}
}

// c21Embedded: keys of promoted fields at every embedding depth (gen.EmbL1: four levels) must reach their fields:
// the value's own events, with the top-level entries in document order, reversed and rotated, spelled exactly and
// in upper case, are unmarshaled into the zero value of the type and compared with the original.
func c21Embedded(c *fx.Ctx, g gen.GV) {
	cfg := configuration.New()
	es, err := iterateEvents(g.V, cfg, false)
	if err != nil || len(es) < 4 || es[2].K != ev.Map {
		return
	}
	// split the top-level map into entries
	var entries [][]ev.E
	i := 3
	for i < len(es) && es[i].K != ev.End {
		ke := valueEnd(es, i)
		ve := valueEnd(es, ke)
		entries = append(entries, es[i:ve])
		i = ve
	}
	n := len(entries)
	orders := [][]int{}
	for rot := 0; rot < n; rot++ {
		var fwd, rev []int
		for k := 0; k < n; k++ {
			fwd = append(fwd, (k+rot)%n)
			rev = append(rev, (n-1-k+rot)%n)
		}
		orders = append(orders, fwd, rev)
	}
	for _, ord := range orders {
		for _, upper := range []bool{false, true} {
			doc := []ev.E{ev.EBD(), ev.EV(0), ev.EMap()}
			for _, k := range ord {
				ent := append([]ev.E{}, entries[k]...)
				if upper && (ent[0].K == ev.StrArray || ent[0].K == ev.Array) {
					ent[0] = ev.EStr(strings.ToUpper(string(ent[0].Data)))
				}
				doc = append(doc, ent...)
			}
			doc = append(doc, ev.EEnd(), ev.EED())
			for _, f := range []codec.Format{codec.CBE, codec.CTE} {
				enc, _, eerr := codec.Encode(f, doc, nil, true)
				if eerr != nil {
					continue
				}
				template := reflect.Zero(reflect.TypeOf(g.V)).Interface()
				var got interface{}
				uerr := safeCall(func() error {
					var e error
					if f == codec.CBE {
						got, e = cbe.NewUnmarshaler(cfg).UnmarshalFromDocument(enc, template)
					} else {
						got, e = cte.NewUnmarshaler(cfg).UnmarshalFromDocument(enc, template)
					}
					return e
				})
				c.Add("evaluations", 1)
				c.Add("unmarshal_cases", 1)
				c.Add("embedded_unmarshal_cases", 1)
				w := c21Witness{Doc: doc, Format: f.String(), CaseIn: true}
				sig := fmt.Sprintf("unmarshal:embedded:%s:upper=%v", f, upper)
				if uerr != nil {
					c.Violation(sig+":fails:"+errClass(uerr), fmt.Sprintf("unmarshal of %s into %T fails: %v", showDoc(f, enc), template, uerr), w)
					return
				}
				if msg := goEqual(reflect.ValueOf(g.V), reflect.ValueOf(got), "$"); msg != "" {
					c.Violation(sig+":field-not-set", fmt.Sprintf("unmarshal of %s into %T (value %s): %s", showDoc(f, enc), template, g.Name, msg), w)
					return
				}
				c.Distinct("nontrivial", sig+string(enc))
			}
		}
	}
}

func init() {
	register(&fx.Check{
		ID:    "C21",
		Level: "exploration",
		Rule: "marshal: every single field over 10 field names (two starting with a non-ASCII upper-case letter) × 12 tag spellings × 12 values; every pair of tags on two fields × 3 value pairs (thorough: every triple of tags on three fields × 2 value triples); an embedded struct (plain / ce:omit / omit_never, zero and non-zero) between two tagged fields; every assignment of 5 order tags to 4 fields — each under both field-name styles and all four default omit behaviours; oracle: a reference model written from the property (kept fields once each, stable order by order tag then declaration, tagged or styled name) compared with the recorded events; two values of one struct type with different omitted fields (5×5 value assignments × 5 tag sets) as elements of one slice and as two documents from one iterator. " +
			"unmarshal: 5 two-field structs (incl. two fields whose names differ only by case, one via a name tag) × 10 spellings of each key (incl. runs of underscores) × both key orders × an unknown key (scalar, long string, nested list, nested map) at each position × case-insensitive on/off × CBE/CTE; oracle: a key that names exactly one field sets it, unknown keys are skipped, other fields keep their zero value; distinct_nontrivial = distinct cases that agreed with the model",
		Assumptions: []string{"whether a name= tag is additionally snake-cased is a don't-care (both accepted)", "in case-sensitive mode keys that differ from a field name only in case/underscores are not judged", "keys that match two fields after normalisation are not judged"},
		TrustedBase: []string{"reference naming/omission/order model in c21.go", "harness value tree"},
		Guards:      map[string]int64{"marshal_cases": 12000, "unmarshal_cases": 5000},
		Run:         c21Run,
		Replay: func(raw json.RawMessage) string {
			var w c21Witness
			if err := json.Unmarshal(raw, &w); err != nil {
				return err.Error()
			}
			c := fx.NewScratchCtx()
			if w.Seq {
				h := len(w.Fields) / 2
				c21MarshalSeq(c, w.Fields[:h], w.Fields[h:], configuration.FieldNameStyle(w.Style), configuration.FieldOmitBehavior(w.Omit))
				return c.FirstViolation()
			}
			if w.Doc == nil {
				c21Marshal(c, w.Fields, configuration.FieldNameStyle(w.Style), configuration.FieldOmitBehavior(w.Omit), "replay")
				return c.FirstViolation()
			}
			return "NOT-REPLAYABLE: unmarshal witnesses carry the document and struct description; re-run `scripts/check.sh C21 quick`"
		},
	})
}
