package checks

import (
	"bytes"
	"encoding/json"
	"fmt"
	"io"
	"reflect"
	"strings"

	"github.com/kstenerud/go-concise-encoding/cbe"
	"github.com/kstenerud/go-concise-encoding/configuration"
	"github.com/kstenerud/go-concise-encoding/cte"
	"github.com/kstenerud/go-concise-encoding/iterator"
	"github.com/kstenerud/go-concise-encoding/rules"
	"verif/harness/internal/codec"
	"verif/harness/internal/env"
	"verif/harness/internal/ev"
	"verif/harness/internal/fx"
	"verif/harness/internal/gen"
	"verif/harness/internal/statekey"
)

type gvWitness struct {
	Name   string `json:"value_name"`
	Class  string `json:"class"`
	Level  int    `json:"corpus_level"`
	Format string `json:"format,omitempty"`
	Config string `json:"config,omitempty"`
	Value  string `json:"value_rendered"`
}

func gvW(g gen.GV, level int, f, cfgName string) gvWitness {
	return gvWitness{Name: g.Name, Class: g.Class, Level: level, Format: f, Config: cfgName, Value: clipS(fmt.Sprintf("%#v", g.V))}
}

// corpusLevel: 1 in quick (every constructor over every leaf kind + a third of the constructor pairs), 2 in thorough.
func corpusLevel(c *fx.Ctx) int { return c.Pick(1, 2) }

// iterateEvents runs the real iterator over v into the rules validator and a recorder.
func iterateEvents(v interface{}, cfg *configuration.Configuration, withRules bool) (es []ev.E, err error) {
	rec := &ev.Recorder{}
	var rcv = interface{}(rec)
	_ = rcv
	defer func() {
		if x := recover(); x != nil {
			err = fmt.Errorf("%v", x)
			es = rec.Events
		}
	}()
	sess := iterator.NewSession(nil, cfg)
	if withRules {
		sess.NewIterator(rules.NewRules(rec, cfg)).Iterate(v)
	} else {
		sess.NewIterator(rec).Iterate(v)
	}
	return rec.Events, nil
}

type marshalCfg struct {
	name string
	mk   func(v interface{}) *configuration.Configuration
}

func structTypesIn(t reflect.Type, seen map[reflect.Type]bool, out *[]reflect.Type) {
	if seen[t] {
		return
	}
	seen[t] = true
	switch t.Kind() {
	case reflect.Ptr, reflect.Slice, reflect.Array:
		structTypesIn(t.Elem(), seen, out)
	case reflect.Map:
		structTypesIn(t.Key(), seen, out)
		structTypesIn(t.Elem(), seen, out)
	case reflect.Struct:
		switch t {
		case typTime, typCTime, typBigInt, typBigF, typDec, typDFloat, typURL, typMedia, typNode, typEdge:
			return
		}
		*out = append(*out, t)
		for i := 0; i < t.NumField(); i++ {
			structTypesIn(t.Field(i).Type, seen, out)
		}
	}
}

func marshalCfgs() []marshalCfg {
	return []marshalCfg{
		{"default", func(v interface{}) *configuration.Configuration { return configuration.New() }},
		{"recursion", func(v interface{}) *configuration.Configuration {
			c := configuration.New()
			c.Iterator.RecursionSupport = true
			return c
		}},
		{"record-types", func(v interface{}) *configuration.Configuration {
			c := configuration.New()
			if v == nil {
				return c
			}
			var sts []reflect.Type
			structTypesIn(reflect.TypeOf(v), map[reflect.Type]bool{}, &sts)
			for i, st := range sts {
				c.Iterator.RecordTypes[st] = fmt.Sprintf("r%d", i)
			}
			return c
		}},
	}
}

func hasClass(cls, leafKind string) bool {
	return strings.Contains(cls, "("+leafKind+")") || cls == leafKind
}

// ---------------- C05 ----------------

func c05Case(c *fx.Ctx, g gen.GV, level int, mc marshalCfg) {
	cfg := mc.mk(g.V)
	es, err := iterateEvents(g.V, cfg, true)
	c.Add("evaluations", 1)
	w := gvW(g, level, "", mc.name)
	if err != nil {
		c.Violation(fmt.Sprintf("events-rejected-by-rules:%s:%s:%s", mc.name, leafKind(g.Class), errClassFor(g.Class, err)),
			fmt.Sprintf("iterating %s (%s) with config %s: %v; events so far [%s]", g.Name, clipS(fmt.Sprintf("%#v", g.V)), mc.name, err, clipS(ev.Join(es))), w)
		return
	}
	tree, terr := treeOf(es)
	if terr != nil {
		c.Violation(fmt.Sprintf("events-malformed:%s:%s", mc.name, leafKind(g.Class)), fmt.Sprintf("events of %s do not form a value: %v [%s]", g.Name, terr, clipS(ev.Join(es))), w)
		return
	}
	m := &matcher{omitEmpty: true}
	if msg := m.match(tree, reflect.ValueOf(g.V), "$"); msg != "" {
		c.Violation(fmt.Sprintf("events-do-not-describe-value:%s:%s:%s:%s", mc.name, leafKind(g.Class), outerCtor(g.Class), mismatchKind(msg)),
			fmt.Sprintf("events of %s (%s) under config %s: %s; events [%s]", g.Name, clipS(fmt.Sprintf("%#v", g.V)), mc.name, msg, clipS(ev.Join(es))), w)
		return
	}
	// "consequently every document a marshaler produces decodes without error"
	for _, f := range []codec.Format{codec.CBE, codec.CTE} {
		var doc []byte
		var merr error
		if f == codec.CBE {
			doc, merr = cbe.NewMarshaler(cfg).MarshalToDocument(g.V)
		} else {
			doc, merr = cte.NewMarshaler(cfg).MarshalToDocument(g.V)
		}
		if merr != nil {
			c.Violation(fmt.Sprintf("marshal-fails:%s:%s:%s:%s", f, mc.name, leafKind(g.Class), errClass(merr)), fmt.Sprintf("marshal of %s to %s fails: %v", g.Name, f, merr), w)
			continue
		}
		if _, derr := codec.Decode(f, doc, nil, true); derr != nil {
			c.Violation(fmt.Sprintf("marshaled-document-does-not-decode:%s:%s:%s:%s", f, mc.name, leafKind(g.Class), errClass(derr)),
				fmt.Sprintf("document marshaled from %s (%s) is rejected by the %s decoder+rules: %v; document %s", g.Name, clipS(fmt.Sprintf("%#v", g.V)), f, derr, showDoc(f, doc)), w)
		}
	}
	c.Distinct("nontrivial", mc.name+"|"+ev.Join(es))
	if c.Index()%97 == 0 {
		c.Sample(fmt.Sprintf("%s [%s] -> %s", g.Name, mc.name, clipS(ev.Join(es))))
	}
}

func findGV(name string, level int) (gen.GV, bool) {
	for _, g := range gen.GoValues(level) {
		if g.Name == name {
			return g, true
		}
	}
	for _, g := range sharedPointerValues() {
		if g.Name == name {
			return g, true
		}
	}
	return gen.GV{}, false
}

// ---------------- C04 ----------------

func c04Case(c *fx.Ctx, g gen.GV, level int, f codec.Format) { c04CaseCfg(c, g, level, f, "default") }

// c04CaseCfg: cfgName "default", or "omit-never" (every field is written, nil pointers as null).
func c04CaseCfg(c *fx.Ctx, g gen.GV, level int, f codec.Format, cfgName string) {
	cfg := configuration.New()
	if cfgName == "omit-never" {
		cfg.Iterator.DefaultFieldOmitBehavior = configuration.OmitFieldNever
	}
	var doc []byte
	var err error
	err = safeCall(func() error {
		var e error
		if f == codec.CBE {
			doc, e = cbe.NewMarshaler(cfg).MarshalToDocument(g.V)
		} else {
			doc, e = cte.NewMarshaler(cfg).MarshalToDocument(g.V)
		}
		return e
	})
	c.Add("evaluations", 1)
	w := gvW(g, level, f.String(), cfgName)
	if err != nil {
		c.Violation(fmt.Sprintf("marshal-fails:%s:%s:%s", f, leafKind(g.Class), errClassFor(g.Class, err)), fmt.Sprintf("marshal of %s (%s) to %s fails: %v", g.Name, clipS(fmt.Sprintf("%#v", g.V)), f, err), w)
		return
	}
	if g.V == nil {
		return
	}
	template := reflect.Zero(reflect.TypeOf(g.V)).Interface()
	var got interface{}
	err = safeCall(func() error {
		var e error
		if f == codec.CBE {
			got, e = cbe.NewUnmarshaler(cfg).UnmarshalFromDocument(doc, template)
		} else {
			got, e = cte.NewUnmarshaler(cfg).UnmarshalFromDocument(doc, template)
		}
		return e
	})
	if err != nil {
		c.Violation(fmt.Sprintf("unmarshal-fails:%s:%s:%s", f, leafKind(g.Class), errClassFor(g.Class, err)),
			fmt.Sprintf("unmarshal of marshaled %s (%s) into %T fails: %v; document %s", g.Name, clipS(fmt.Sprintf("%#v", g.V)), template, err, showDoc(f, doc)), w)
		return
	}
	if msg := goEqual(reflect.ValueOf(g.V), reflect.ValueOf(got), "$"); msg != "" {
		c.Violation(fmt.Sprintf("value-changed:%s:%s:%s:%s", f, leafKind(g.Class), outerCtor(g.Class), mismatchKind(msg)),
			fmt.Sprintf("%s round trip of %s: %s; document %s", f, g.Name, msg, showDoc(f, doc)), w)
		return
	}
	c.Distinct("nontrivial", f.String()+string(doc))
	if c.Index()%97 == 0 {
		c.Sample(fmt.Sprintf("%s -> %s", g.Name, showDoc(f, doc)))
	}
}

// ---------------- C18 ----------------

func snapshot(v interface{}) string {
	return statekey.Of(v, statekey.Options{FollowPointers: true})
}

func c18Case(c *fx.Ctx, g gen.GV, level int, f codec.Format, recursion bool) {
	cfg := configuration.New()
	cfg.Iterator.RecursionSupport = recursion
	before := snapshot(g.V)
	var d1, d2 []byte
	var e1, e2 error
	safeCall(func() error {
		if f == codec.CBE {
			d1, e1 = cbe.NewMarshaler(cfg).MarshalToDocument(g.V)
		} else {
			d1, e1 = cte.NewMarshaler(cfg).MarshalToDocument(g.V)
		}
		return nil
	})
	after := snapshot(g.V)
	c.Add("evaluations", 1)
	name := "default"
	if recursion {
		name = "recursion"
	}
	w := gvW(g, level, f.String(), name)
	if before != after {
		c.Violation(fmt.Sprintf("value-modified:%s:%s", f, g.Class),
			fmt.Sprintf("marshaling %s to %s modified the value: before %s after %s", g.Name, f, clipS(diffAround(before, after)), clipS(diffAround(after, before))), w)
		return
	}
	safeCall(func() error {
		if f == codec.CBE {
			d2, e2 = cbe.NewMarshaler(cfg).MarshalToDocument(g.V)
		} else {
			d2, e2 = cte.NewMarshaler(cfg).MarshalToDocument(g.V)
		}
		return nil
	})
	if (e1 == nil) != (e2 == nil) || (e1 == nil && !bytes.Equal(d1, d2) && !containsMap(reflect.TypeOf(g.V))) {
		c.Violation(fmt.Sprintf("second-marshal-differs:%s:%s", f, g.Class),
			fmt.Sprintf("marshaling %s twice gives %s (err=%v) then %s (err=%v)", g.Name, showDoc(f, d1), e1, showDoc(f, d2), e2), w)
		return
	}
	if snapshot(g.V) != before {
		c.Violation(fmt.Sprintf("value-modified-by-second-marshal:%s:%s", f, g.Class), fmt.Sprintf("second marshaling of %s modified the value", g.Name), w)
	}
	c.Distinct("nontrivial", before)
	if c.Index()%101 == 0 {
		c.Sample(fmt.Sprintf("%s (%s, recursion=%v): snapshot unchanged: %s", g.Name, f, recursion, clipS(before)))
	}
}

// containsMap: documents of values containing Go maps depend on map iteration order and are not compared byte for byte.
// c18FailingWriter: a marshal that fails part-way must leave the value untouched too. The destination is a scripted
// writer that fails (sticky) at Write call k, for every k up to the number of calls a successful marshal makes (capped),
// once accepting none and once accepting half of that call's bytes.
func c18FailingWriter(c *fx.Ctx, g gen.GV, level int, f codec.Format) {
	cfg := configuration.New()
	marshal := func(w io.Writer) error {
		return safeCall(func() error {
			if f == codec.CBE {
				return cbe.NewMarshaler(cfg).Marshal(g.V, w)
			}
			return cte.NewMarshaler(cfg).Marshal(g.V, w)
		})
	}
	before := snapshot(g.V)
	probe := &env.Writer{}
	if marshal(probe) != nil {
		return
	}
	calls := probe.Calls
	if calls > 48 {
		calls = 48
		c.Add("failing_writer_capped_values", 1)
	}
	for k := 0; k < calls; k++ {
		for _, part := range []int{0, 1 << 20} {
			w := &env.Writer{Script: env.Script{At: map[int]env.Answer{k: {Kind: env.Fail, K: part, Sticky: true}}}}
			if part != 0 {
				w.Script.At[k] = env.Answer{Kind: env.Fail, K: 3, Sticky: true}
			}
			err := marshal(w)
			c.Add("evaluations", 1)
			c.Add("failing_writer_runs", 1)
			if after := snapshot(g.V); after != before {
				c.Violation(fmt.Sprintf("value-modified-by-failed-marshal:%s:%s", f, g.Class),
					fmt.Sprintf("marshaling %s to %s into a writer that fails at Write call %d (err=%v) modified the value: before %s after %s", g.Name, f, k, err, clipS(diffAround(before, after)), clipS(diffAround(after, before))),
					gvW(g, level, f.String(), "failing-writer"))
				return
			}
		}
	}
}

func containsMap(t reflect.Type) bool {
	if t == nil {
		return false
	}
	seen := map[reflect.Type]bool{}
	var rec func(t reflect.Type) bool
	rec = func(t reflect.Type) bool {
		if seen[t] {
			return false
		}
		seen[t] = true
		switch t.Kind() {
		case reflect.Map, reflect.Interface:
			return true
		case reflect.Ptr, reflect.Slice, reflect.Array:
			return rec(t.Elem())
		case reflect.Struct:
			for i := 0; i < t.NumField(); i++ {
				if rec(t.Field(i).Type) {
					return true
				}
			}
		}
		return false
	}
	return rec(t)
}

func diffAround(a, b string) string {
	i := 0
	for i < len(a) && i < len(b) && a[i] == b[i] {
		i++
	}
	from := i - 40
	if from < 0 {
		from = 0
	}
	to := i + 80
	if to > len(a) {
		to = len(a)
	}
	return "…" + a[from:to] + "…"
}

func gvReplay(run func(c *fx.Ctx, g gen.GV, w gvWitness)) func(json.RawMessage) string {
	return func(raw json.RawMessage) string {
		var w gvWitness
		if err := json.Unmarshal(raw, &w); err != nil {
			return err.Error()
		}
		g, ok := findGV(w.Name, w.Level)
		if !ok {
			return "value " + w.Name + " not in corpus level " + fmt.Sprint(w.Level)
		}
		c := fx.NewScratchCtx()
		run(c, g, w)
		return c.FirstViolation()
	}
}

func fmtOf(s string) codec.Format {
	if s == "cte" {
		return codec.CTE
	}
	return codec.CBE
}

func init() {
	register(&fx.Check{
		ID:    "C05",
		Level: "exploration",
		Rule: "every value of the marshal corpus (every leaf value of ~50 leaf kinds incl. typed arrays at lengths 0,1,3,15,16,17,40 and bool slices at 0,1,7,8,9,17; every type constructor ptr/slice/empty slice/[2]T/map[string]T/map[int]T/struct/[]interface{} over every leaf kind; constructor pairs: a third in quick, all in thorough) " +
			"× 3 configurations (default, recursion support, every struct type registered as a record type): the real iterator feeds the real rules validator and a recorder; the recorded events are turned into a value tree by the harness and must describe the Go value exactly " +
			"(every element/entry/non-empty field once, typed arrays compared with an independent little-endian rendering, bit arrays LSB first); then the marshaled CBE and CTE documents must decode with rules; distinct_nontrivial = distinct (config, event stream)",
		Assumptions: []string{"default omit behaviour: a field may be absent only when it is empty", "struct keys are matched to fields ignoring case and underscores (exact names are C21's subject)", "zero-value times may be written as null"},
		TrustedBase: []string{"harness value tree (gotree.go)", "encoding/binary as little-endian reference", "real rules validator"},
		Guards:      map[string]int64{"evaluations": 3000, "distinct:nontrivial": 1500},
		Run: func(c *fx.Ctx) {
			level := corpusLevel(c)
			for _, g := range gen.GoValues(level) {
				if !c.Take() {
					continue
				}
				for _, mc := range marshalCfgs() {
					c05Case(c, g, level, mc)
					if mc.name != "default" {
						c05ReuseCase(c, g, level, mc)
					}
				}
			}
			for _, g := range sharedPointerValues() {
				if !c.Take() {
					continue
				}
				for _, mc := range marshalCfgs() {
					if mc.name == "recursion" { // cyclic values need recursion support
						c05Case(c, g, level, mc)
						c05ReuseCase(c, g, level, mc)
					}
				}
			}
		},
		Replay: gvReplay(func(c *fx.Ctx, g gen.GV, w gvWitness) {
			for _, mc := range marshalCfgs() {
				if mc.name == w.Config {
					c05Case(c, g, w.Level, mc)
				}
			}
		}),
	})
	register(&fx.Check{
		ID:    "C04",
		Level: "exploration",
		Rule: "every value of the marshal corpus (see C05) × {CBE, CTE}: marshal with a fresh marshaler, unmarshal into the zero value of the same type with a fresh unmarshaler; must succeed and be equal under the property's equality " +
			"(nil≡empty slices/maps, times by instant+offset, big numbers by value, NaN≡NaN, interface{} contents by value); distinct_nontrivial = distinct documents that round-tripped",
		Assumptions: []string{"the builder returns *T for struct/array templates (dereferenced)", "big.Float compared within the decimal rounding its precision implies"},
		TrustedBase: []string{"harness equality goeq.go"},
		Guards:      map[string]int64{"evaluations": 2000, "distinct:nontrivial": 800},
		Run: func(c *fx.Ctx) {
			level := corpusLevel(c)
			for _, g := range gen.GoValues(level) {
				if !c.Take() {
					continue
				}
				for _, f := range []codec.Format{codec.CBE, codec.CTE} {
					c04Case(c, g, level, f)
					if strings.Contains(g.Class, "struct") || strings.Contains(g.Class, "pair") || strings.Contains(g.Class, "embedded") || strings.Contains(g.Class, "field") {
						c04CaseCfg(c, g, level, f, "omit-never")
					}
				}
			}
		},
		Replay: gvReplay(func(c *fx.Ctx, g gen.GV, w gvWitness) { c04CaseCfg(c, g, w.Level, fmtOf(w.Format), w.Config) }),
	})
	register(&fx.Check{
		ID:    "C18",
		Level: "exploration",
		Rule: "every value of the marshal corpus plus big.Int ±(2^k+d), k=0..130, d∈{-1,0,1} held by pointer at top level, in a struct field, slice element, map value and interface{}; big.Float/apd.Decimal over signs×exponents: " +
			"a reflective deep snapshot (including unexported words of big numbers) taken before marshaling must equal the snapshot after marshaling to CBE and to CTE (with and without recursion support), " +
			"and a second marshal must give the same document; distinct_nontrivial = distinct values",
		Assumptions: []string{"documents of values containing Go maps are not compared byte for byte between the two marshals (map order)"},
		TrustedBase: []string{"reflect-based snapshot (statekey)"},
		Guards:      map[string]int64{"evaluations": 5000},
		Run: func(c *fx.Ctx) {
			level := corpusLevel(c)
			vals := append(append(gen.GoValues(level), gen.BigPointerValues()...), gen.ExtremeBigValues()...)
			for _, g := range vals {
				if !c.Take() {
					continue
				}
				for _, f := range []codec.Format{codec.CBE, codec.CTE} {
					c18Case(c, g, level, f, false)
					c18Case(c, g, level, f, true)
					c18FailingWriter(c, g, level, f)
				}
			}
		},
		Replay: func(raw json.RawMessage) string {
			var w gvWitness
			if err := json.Unmarshal(raw, &w); err != nil {
				return err.Error()
			}
			for _, g := range append(append(gen.GoValues(w.Level), gen.BigPointerValues()...), gen.ExtremeBigValues()...) {
				if g.Name == w.Name {
					c := fx.NewScratchCtx()
					if w.Config == "failing-writer" {
						c18FailingWriter(c, g, w.Level, fmtOf(w.Format))
						return c.FirstViolation()
					}
					c18Case(c, g, w.Level, fmtOf(w.Format), w.Config == "recursion")
					return c.FirstViolation()
				}
			}
			return "value not found"
		},
	})
}

// leafKind extracts the innermost kind of a corpus class ("mapint(ptr(edge))" -> "edge").
func leafKind(cls string) string {
	i := strings.LastIndex(cls, "(")
	if i < 0 {
		return cls
	}
	return strings.TrimRight(cls[i+1:], ")")
}

// outerCtor is the outermost constructor of a corpus class ("" for a bare leaf).
func outerCtor(cls string) string {
	if i := strings.Index(cls, "("); i > 0 {
		return cls[:i]
	}
	return ""
}

// mismatchKind reduces a matcher/equality message to its category (text up to the first concrete value).
func mismatchKind(msg string) string {
	if i := strings.Index(msg, ": "); i >= 0 {
		msg = msg[i+2:]
	}
	w := strings.Fields(msg)
	if len(w) > 3 {
		w = w[:3]
	}
	return reNum.ReplaceAllString(strings.Join(w, "-"), "N")
}

// errClassFor: the failure mode of an unterminated edge depends on what happens to follow it (map iteration order
// included), so for values containing types.Edge the error text is not part of the signature.
func errClassFor(cls string, err error) string {
	if leafKind(cls) == "edge" {
		return "any-error"
	}
	return errClass(err)
}
