package checks

import (
	"fmt"
	"math/big"
	"reflect"

	"github.com/kstenerud/go-concise-encoding/builder"
	"github.com/kstenerud/go-concise-encoding/cbe"
	"github.com/kstenerud/go-concise-encoding/configuration"
	"github.com/kstenerud/go-concise-encoding/cte"
	"verif/harness/internal/codec"
	"verif/harness/internal/ev"
	"verif/harness/internal/fx"
	"verif/harness/internal/gen"
)

// c19Pairs: two or three numbers in ONE document built into a slice of pointer-like destinations: a value stored
// earlier must not change when a later one is built (scratch objects shared between events).
func c19Pairs(c *fx.Ctx) {
	var srcs []ev.E
	for _, s := range []string{"9223372036854775813", "18446744073709551615", "12345678901234567890", "1180591620717411303424", "1180591620717411303425", "1361129467683753853853498429727072845824", "340282366920938463463374607431768211455", "5"} {
		v, _ := new(big.Int).SetString(s, 10)
		srcs = append(srcs, gen.IntForms(v)...)
		srcs = append(srcs, gen.IntForms(new(big.Int).Neg(v))...)
	}
	f1, _, _ := big.ParseFloat("1.5", 10, 53, big.ToNearestEven)
	f2, _, _ := big.ParseFloat("-2.25", 10, 53, big.ToNearestEven)
	srcs = append(srcs, ev.EBigFloat(f1), ev.EBigFloat(f2), ev.EFloat(0.5), ev.EFloat(-1e30))
	dests := []interface{}{[]*big.Int{}, []big.Int{}, []interface{}{}, []*big.Float{}, []big.Float{}}
	for _, a := range srcs {
		if !c.Take() {
			continue
		}
		for _, b := range srcs {
			for _, tpl := range dests {
				for _, path := range []string{"builder", "cbe", "cte"} {
					doc := []ev.E{ev.EBD(), ev.EV(0), ev.EList(), a, b, a, ev.EEnd(), ev.EED()}
					cfg := configuration.New()
					var got interface{}
					var err error
					perr := safeCall(func() error {
						switch path {
						case "builder":
							bl := builder.NewSession(nil, cfg).NewBuilderFor(tpl)
							if _, e := ev.TryDriveAll(bl, doc); e != nil {
								err = e
								return nil
							}
							got = bl.GetBuiltObject()
						default:
							f := fmtOf(path)
							enc, _, e := codec.Encode(f, doc, nil, true)
							if e != nil {
								err = e
								return nil
							}
							if f == codec.CBE {
								got, err = cbe.NewUnmarshaler(cfg).UnmarshalFromDocument(enc, tpl)
							} else {
								got, err = cte.NewUnmarshaler(cfg).UnmarshalFromDocument(enc, tpl)
							}
						}
						return nil
					})
					c.Add("evaluations", 1)
					c.Add("pair_cases", 1)
					if perr != nil || err != nil {
						continue
					}
					v := deref(reflect.ValueOf(got))
					if !v.IsValid() || v.Kind() != reflect.Slice || v.Len() != 3 {
						continue
					}
					for i, src := range []ev.E{a, b, a} {
						sn, _ := scalarNode(src)
						gn, ok := looseNum(deref(v.Index(i)))
						if !ok {
							continue
						}
						if !numEqual(sn, gn) && isIntegerEvent(src) {
							c.Violation(fmt.Sprintf("%s:pair:%s+%s->%s:element-%d-differs", path, valueClass(a), valueClass(b), reflect.TypeOf(tpl), i),
								fmt.Sprintf("[%s %s %s] into %s via %s: element %d is %s, encoded %s", a.Key(), b.Key(), a.Key(), reflect.TypeOf(tpl), path, i, gn, sn),
								rtWitness{Format: path, Events: doc})
							break
						}
					}
				}
			}
		}
	}
}
