package checks

import (
	"fmt"
	"sort"
	"strings"

	"github.com/kstenerud/go-concise-encoding/ce/events"
	"verif/harness/internal/codec"
	"verif/harness/internal/ev"
	"verif/harness/internal/fx"
)

// textCarriers: the four places arbitrary text can appear in CTE.
type textCarrier struct {
	name string
	doc  func(s string) []ev.E
}

func textCarriers() []textCarrier {
	wrap := func(es ...ev.E) []ev.E {
		out := []ev.E{ev.EBD(), ev.EV(0), ev.EList()}
		out = append(out, es...)
		return append(out, ev.EEnd(), ev.EED())
	}
	return []textCarrier{
		{"string", func(s string) []ev.E { return wrap(ev.EStr(s)) }},
		{"rid", func(s string) []ev.E { return wrap(ev.ESArr(events.ArrayTypeResourceID, s)) }},
		{"remoteref", func(s string) []ev.E { return wrap(ev.ESArr(events.ArrayTypeReferenceRemote, s)) }},
		{"customtext", func(s string) []ev.E { return wrap(ev.ECustomText(1, s)) }},
		{"comment-line", func(s string) []ev.E { return wrap(ev.ECom(false, s), ev.ENull()) }},
		{"comment-multi", func(s string) []ev.E { return wrap(ev.ECom(true, s), ev.ENull()) }},
		{"mapkey", func(s string) []ev.E {
			return []ev.E{ev.EBD(), ev.EV(0), ev.EMap(), ev.EStr(s), ev.ENull(), ev.EEnd(), ev.EED()}
		}},
	}
}

type byteForm struct {
	name  string
	value func(b []byte) []ev.E
}

func byteForms() []byteForm {
	return []byteForm{
		{"string-bytes", func(b []byte) []ev.E { return []ev.E{ev.EArr(events.ArrayTypeString, uint64(len(b)), b)} }},
		{"rid-bytes", func(b []byte) []ev.E { return []ev.E{ev.EArr(events.ArrayTypeResourceID, uint64(len(b)), b)} }},
		{"remoteref-chunked", func(b []byte) []ev.E {
			return []ev.E{ev.EABegin(events.ArrayTypeReferenceRemote), ev.EChunk(uint64(len(b)), false), ev.EData(b)}
		}},
		{"customtext-chunked", func(b []byte) []ev.E {
			return []ev.E{ev.ECBegin(events.ArrayTypeCustomText, 1), ev.EChunk(uint64(len(b)), false), ev.EData(b)}
		}},
	}
}

var structuralChars = []string{"\"", "\\", "*", "/", "\n", "\r", "\t", " ", "\u00a0", "\u00ad", "\u2028", "\u0301", "\ue000", "\ufffd", "|", "a", "\u0000", "\u007f", "`", "#", "[", "]", "\u2029", "\ufeff", "\u200b", "\u0085"}

func charClass(r rune) string {
	switch {
	case r < 0x20:
		return fmt.Sprintf("c0-control(%#x)", r)
	case r < 0x7f:
		return fmt.Sprintf("ascii(%q)", string(r))
	case r == 0x7f:
		return "del"
	case r < 0xa0:
		return "c1-control"
	}
	return "non-ascii"
}

// textClass is the signature discriminator of a text case: the carrier plus the set of character classes involved;
// the two contents the text syntax cannot carry verbatim get their own classes.
func textClass(carrier, s string) string {
	if carrier == "comment-line" && strings.ContainsAny(s, "\n\r") {
		return "text:comment-line:contains-line-break"
	}
	if carrier == "comment-multi" && !multilineCommentExpressible(s) {
		return "text:comment-multi:not-expressible-in-text-syntax"
	}
	seen := map[string]bool{}
	var cl []string
	for _, r := range s {
		if r == 'a' || r == 'x' || r == 'y' {
			continue
		}
		k := charClass(r)
		if !seen[k] {
			seen[k] = true
			cl = append(cl, k)
		}
	}
	sort.Strings(cl)
	return "text:" + carrier + ":" + strings.Join(cl, "+")
}

// multilineCommentExpressible: "/*"+s+"*/" must lex as exactly one (possibly nested) comment that closes at its very end.
func multilineCommentExpressible(s string) bool {
	t := "/*" + s + "*/"
	depth := 0
	for i := 0; i < len(t); {
		if i+1 < len(t) && t[i] == '/' && t[i+1] == '*' {
			depth++
			i += 2
			continue
		}
		if i+1 < len(t) && t[i] == '*' && t[i+1] == '/' {
			depth--
			i += 2
			if depth == 0 {
				return i == len(t)
			}
			continue
		}
		i++
	}
	return false
}

func c02Run(c *fx.Ctx) {
	o := corpusOpts{refMaxLen: c.Pick(6, 8), structDepth: c.Pick(5, 6), floatStride: c.Pick(16, 1), latlong: c.Pick(100, 100), arrayFullMax: c.Pick(4, 6), comments: true, customText: true, contextsAll: c.Thorough()}
	forEachCorpusDoc(c, o, func(doc []ev.E, cls string) {
		_, _, ok := roundTrip(c, codec.CTE, doc, cls)
		if ok {
			c.Distinct("nontrivial", ev.Join(doc))
			if c.Index()%211 == 0 {
				c.Sample(ev.Join(doc))
			}
		}
	})

	// lat/long: every hundredth in a ±1.00 window plus range ends, both coordinates (what reaches the text conversion)
	// (covered by gen.Timezones with latlong window)

	// every Unicode code point in every text carrier: batches of 64 with bisection on failure
	carriers := textCarriers()
	const batch = 64
	for base := 0; base < 0x110000; base += batch {
		if !c.Take() {
			continue
		}
		var runes []rune
		for cp := base; cp < base+batch; cp++ {
			if cp >= 0xD800 && cp <= 0xDFFF {
				continue
			}
			runes = append(runes, rune(cp))
		}
		if len(runes) == 0 {
			continue
		}
		for _, car := range carriers {
			var try func(rs []rune)
			try = func(rs []rune) {
				var sb strings.Builder
				for _, r := range rs {
					sb.WriteString("a")
					sb.WriteRune(r)
				}
				sub := fx.NewScratchCtx()
				_, _, ok := roundTrip(sub, codec.CTE, car.doc(sb.String()), "probe")
				c.Add("evaluations", 1)
				c.Add("codepoint_docs", 1)
				if ok || sub.ViolationCount() == 0 {
					return
				}
				if len(rs) == 1 {
					roundTrip(c, codec.CTE, car.doc(sb.String()), textClass(car.name, sb.String()))
					return
				}
				try(rs[:len(rs)/2])
				try(rs[len(rs)/2:])
			}
			try(runes)
		}
		// the same code points as ONE-character values delivered as bytes (OnArray / chunked), 64 values per document:
		// nothing else in the value can force the escaping path, so the per-value escape decision is what is tested
		for _, bf := range byteForms() {
			var try func(rs []rune)
			try = func(rs []rune) {
				doc := []ev.E{ev.EBD(), ev.EV(0), ev.EList()}
				for _, r := range rs {
					doc = append(doc, bf.value([]byte(string(r)))...)
				}
				doc = append(doc, ev.EEnd(), ev.EED())
				sub := fx.NewScratchCtx()
				_, _, ok := roundTrip(sub, codec.CTE, doc, "probe")
				c.Add("evaluations", 1)
				c.Add("codepoint_docs", 1)
				if ok || sub.ViolationCount() == 0 {
					return
				}
				if len(rs) == 1 {
					roundTrip(c, codec.CTE, doc, textClass(bf.name, string(rs[0])))
					return
				}
				try(rs[:len(rs)/2])
				try(rs[len(rs)/2:])
			}
			try(runes)
		}
	}

	// all ordered pairs over the structural character alphabet in every carrier
	for _, car := range carriers {
		for _, a := range structuralChars {
			if !c.Take() {
				continue
			}
			for _, b := range structuralChars {
				for _, s := range []string{a + b, "x" + a + b + "y", a + "x" + b} {
					c.Add("pair_docs", 1)
					roundTrip(c, codec.CTE, car.doc(s), textClass(car.name, s))
				}
			}
		}
	}
}

func init() {
	register(&fx.Check{
		ID:    "C02",
		Level: "exploration",
		Rule: "the C01 sweeps through the CTE codec (padding dropped from the input side only, comments compared with their text): structure documents to depth 5/6 with single- and multi-line comments at every position the grammar allows, scalar alphabet × contexts incl. every lat/long hundredth in a ±1.00 window, " +
			"arrays incl. custom text; plus every Unicode code point in strings, resource IDs, remote references, custom text, map keys and both comment kinds (batches of 64 with bisection), plus all ordered pairs over a 26-character structural alphabet in each carrier; distinct_nontrivial = distinct inputs that round-tripped",
		Assumptions: []string{"comment positions follow DESIGN §3 C01/C02 (not between a marker and its value, not inside arrays, not after the top-level value)",
			"big.Float wider than float64 compared within the documented decimal rounding"},
		TrustedBase: []string{"harness normal form internal/nf", "real rules validator as generator"},
		Guards:      map[string]int64{"structure_docs": 500, "value_docs": 10000, "array_docs": 2000, "codepoint_docs": 100000},
		Run:         c02Run,
		Replay:      replayRoundTrip,
	})
}
