package checks

import (
	"encoding/json"
	"fmt"
	"io"
	"reflect"
	"strings"

	"github.com/kstenerud/go-concise-encoding/cbe"
	"github.com/kstenerud/go-concise-encoding/ce"
	"github.com/kstenerud/go-concise-encoding/ce/events"
	"github.com/kstenerud/go-concise-encoding/configuration"
	"github.com/kstenerud/go-concise-encoding/cte"
	"verif/harness/internal/codec"
	"verif/harness/internal/env"
	"verif/harness/internal/ev"
	"verif/harness/internal/fx"
	"verif/harness/internal/gen"
)

type c29Witness struct {
	Entry  string     `json:"entry"`
	Side   string     `json:"side"` // read | write | encode
	Doc    []byte     `json:"document,omitempty"`
	Value  string     `json:"value_name,omitempty"`
	Events []ev.E     `json:"events,omitempty"`
	Script env.Script `json:"script"`
	StrW   bool       `json:"string_writer,omitempty"`
}

type writeEntry struct {
	name string
	run  func(v interface{}, w io.Writer) error
}

func writeEntries() []writeEntry {
	return []writeEntry{
		{"ce.MarshalCBE", func(v interface{}, w io.Writer) error { return ce.MarshalCBE(v, w, configuration.New()) }},
		{"ce.MarshalCTE", func(v interface{}, w io.Writer) error { return ce.MarshalCTE(v, w, configuration.New()) }},
		{"cbe.Marshaler.Marshal", func(v interface{}, w io.Writer) error { return cbe.NewMarshaler(configuration.New()).Marshal(v, w) }},
		{"cte.Marshaler.Marshal", func(v interface{}, w io.Writer) error { return cte.NewMarshaler(configuration.New()).Marshal(v, w) }},
	}
}

func faultKinds() []env.Answer {
	return []env.Answer{{Kind: env.Fail, K: 0, Sticky: true}, {Kind: env.Fail, K: 1, Sticky: true}, {Kind: env.Fail, K: 0}, {Kind: env.Fail, K: 1}}
}

func faultName(a env.Answer) string {
	return fmt.Sprintf("fail(%d bytes,%s)", a.K, map[bool]string{true: "then-keeps-failing", false: "once"}[a.Sticky])
}

func mkWriter(sc env.Script, strw bool) (io.Writer, func() (bool, int)) {
	if strw {
		w := &env.StringWriter{Writer: env.Writer{Script: sc}}
		return w, func() (bool, int) { return w.Injected(), w.Calls }
	}
	w := &env.Writer{Script: sc}
	return w, func() (bool, int) { return w.Injected(), w.Calls }
}

func c29Write(c *fx.Ctx, e writeEntry, g gen.GV, sc env.Script, strw bool, dev string) int {
	w, st := mkWriter(sc, strw)
	var err error
	perr := safeCall(func() error { err = e.run(g.V, w); return nil })
	injected, calls := st()
	c.Add("evaluations", 1)
	c.Add("write_fault_runs", 1)
	wit := c29Witness{Entry: e.name, Side: "write", Value: g.Name, Script: sc, StrW: strw}
	wk := map[bool]string{true: "io.StringWriter", false: "io.Writer"}[strw]
	if perr != nil {
		c.Violation(fmt.Sprintf("%s:%s:panic-escapes:%s", e.name, wk, dev), fmt.Sprintf("%s on %s with writer script %s: %v", e.name, g.Name, scriptString(sc), perr), wit)
		return calls
	}
	if injected {
		c.Add("faults_injected", 1)
		if err == nil {
			c.Violation(fmt.Sprintf("%s:%s:write-failure-not-reported:%s", e.name, wk, dev),
				fmt.Sprintf("%s on %s returns nil although the %s failed (script %s)", e.name, g.Name, wk, scriptString(sc)), wit)
		}
	}
	return calls
}

func c29Read(c *fx.Ctx, e readEntry, doc []byte, sc env.Script, dev string) int {
	rd := &env.Reader{Data: doc, Script: sc}
	_, err := guard(func() (string, error) { return e.stream(rd) })
	c.Add("evaluations", 1)
	c.Add("read_fault_runs", 1)
	wit := c29Witness{Entry: e.name, Side: "read", Doc: doc, Script: sc}
	if err != nil && len(err.Error()) > 14 && err.Error()[:14] == "ESCAPED PANIC:" {
		c.Violation(fmt.Sprintf("%s:panic-escapes:%s", e.name, dev), fmt.Sprintf("%s with reader script %s on % x: %v", e.name, scriptString(sc), clipB(doc), err), wit)
		return rd.Calls
	}
	if rd.Injected {
		c.Add("faults_injected", 1)
		if err == nil {
			c.Violation(fmt.Sprintf("%s:read-failure-not-reported:%s", e.name, dev),
				fmt.Sprintf("%s returns nil although the reader failed (script %s) on % x", e.name, scriptString(sc), clipB(doc)), wit)
		}
	}
	return rd.Calls
}

// c29Encode drives events one by one into a low-level encoder over a failing writer: the event during which the
// write fails must report it (panic, the documented contract of the low-level encoders) and the failure must never
// be lost: if all events were driven without a panic although a write failed, the failure was swallowed.
func c29Encode(c *fx.Ctx, f codec.Format, doc []ev.E, sc env.Script, strw bool, dev string) int {
	w, st := mkWriter(sc, strw)
	var enc events.DataEventReceiver
	if f == codec.CBE {
		e := ce.NewCBEEncoder(configuration.New())
		e.PrepareToEncode(w)
		enc = e
	} else {
		e := ce.NewCTEEncoder(configuration.New())
		e.PrepareToEncode(w)
		enc = e
	}
	c.Add("evaluations", 1)
	c.Add("encode_fault_runs", 1)
	wk := map[bool]string{true: "io.StringWriter", false: "io.Writer"}[strw]
	for i, e := range doc {
		wasInjected, _ := st()
		err := ev.TryDrive(enc, e)
		injected, _ := st()
		if injected && !wasInjected {
			c.Add("faults_injected", 1)
			if err == nil {
				c.Violation(fmt.Sprintf("%s-encoder:%s:write-failure-not-reported:%s:%s", f, wk, dev, evClass(e)),
					fmt.Sprintf("%s encoder: the write failed during event %d (%s) of [%s] but the event returned normally (script %s)", f, i, e.Key(), clipS(ev.Join(doc)), scriptString(sc)),
					c29Witness{Entry: f.String() + "-encoder", Side: "encode", Events: doc, Script: sc, StrW: strw})
			}
			break
		}
		if err != nil {
			break
		}
	}
	_, calls := st()
	return calls
}

// c29ExtraValues: strings that take the text writer's special paths (line feeds with and without escapes, long bodies),
// at top level, as elements, keys and fields.
func c29ExtraValues() []gen.GV {
	long := strings.Repeat("0123456789abcdef", 20)
	return []gen.GV{
		{Name: "str:lf", Class: "string-special", V: "line one\nline two"},
		{Name: "str:lf-only", Class: "string-special", V: "\n"},
		{Name: "str:lf+escape", Class: "string-special", V: "a\n\"b\\c\td"},
		{Name: "str:crlf", Class: "string-special", V: "a\r\nb"},
		{Name: "str:long", Class: "string-special", V: long},
		{Name: "str:long+lf", Class: "string-special", V: long + "\n" + long},
		{Name: "str:unicode-escapes", Class: "string-special", V: "x\u0001y\u2028z\u00a0"},
		{Name: "strs:lf-elements", Class: "string-special", V: []string{"x\ny", "z", "\n\n"}},
		{Name: "map:lf-key-and-value", Class: "string-special", V: map[string]string{"k\nk": "v\nw"}},
		{Name: "struct:lf-field", Class: "string-special", V: struct {
			S string
			N int
			T string
		}{"p\nq", 7, "tail"}},
		{Name: "iface:mixed", Class: "string-special", V: []interface{}{"a\nb", int64(1), []byte("raw\nbytes"), "plain"}},
	}
}

func c29Run(c *fx.Ctx) {
	// write side: marshal entry points × value corpus × every write call × fault kind × {io.Writer, io.StringWriter}
	vals := append(gen.GoValues(0), c29ExtraValues()...)
	if c.Thorough() { // a third of the full marshal corpus of C04/C05
		for i, g := range gen.GoValues(1) {
			if i%3 == 0 && !containsMap(reflect.TypeOf(g.V)) {
				vals = append(vals, g)
			}
		}
	}
	for _, g := range vals {
		if leafKind(g.Class) == "edge" {
			continue
		}
		for _, e := range writeEntries() {
			if !c.Take() {
				continue
			}
			for _, strw := range []bool{false, true} {
				n := c29Write(c, e, g, env.Script{}, strw, "no-fault")
				for i := 0; i < n; i++ {
					for _, k := range faultKinds() {
						c29Write(c, e, g, env.Script{At: map[int]env.Answer{i: k}}, strw, faultName(k))
					}
				}
				c.Distinct("nontrivial", fmt.Sprintf("w|%s|%s|%v", e.name, g.Name, strw))
			}
		}
	}
	// encoder side
	docs := ioCorpus(0)
	for _, d := range docs {
		for _, f := range []codec.Format{codec.CBE, codec.CTE} {
			if !c.Take() {
				continue
			}
			if f == codec.CBE && d.cbe == nil || f == codec.CTE && d.cte == nil {
				continue
			}
			for _, strw := range []bool{false, true} {
				n := c29Encode(c, f, d.events, env.Script{}, strw, "no-fault")
				for i := 0; i < n; i++ {
					for _, k := range faultKinds() {
						c29Encode(c, f, d.events, env.Script{At: map[int]env.Answer{i: k}}, strw, faultName(k))
					}
				}
				c.Distinct("nontrivial", fmt.Sprintf("e|%s|%s|%v", f, d.name, strw))
			}
		}
	}
	// read side: reader entry points × documents × every read call (including the one that would return EOF) × fault kind
	for _, d := range docs {
		for _, doc := range [][]byte{d.cbe, d.cte} {
			if doc == nil {
				continue
			}
			for _, e := range readEntries() {
				if !c.Take() {
					continue
				}
				isCBE := doc[0] == 0x81
				if e.format == "cbe" && !isCBE || e.format == "cte" && isCBE {
					continue
				}
				n := c29Read(c, e, doc, env.Script{}, "no-fault")
				for i := 0; i < n; i++ {
					for _, k := range faultKinds() {
						c29Read(c, e, doc, env.Script{At: map[int]env.Answer{i: k}}, faultName(k))
					}
				}
				// the same with one-byte reads, so that every byte offset of the document is a fault position
				one := env.Answer{Kind: env.Short, K: 1}
				n = c29Read(c, e, doc, env.Script{Default: one}, "no-fault")
				for i := 0; i < n; i++ {
					for _, k := range faultKinds()[:2] {
						c29Read(c, e, doc, env.Script{Default: one, At: map[int]env.Answer{i: k}}, "1-byte-reads+"+faultName(k))
					}
				}
				c.Distinct("nontrivial", "r|"+e.name+"|"+string(doc))
				if c.Index()%41 == 0 {
					c.Sample(map[string]interface{}{"entry": e.name, "document": fmt.Sprintf("%x", clipB(doc)), "read_calls": n, "fault_kinds": []string{faultName(faultKinds()[0]), faultName(faultKinds()[1]), faultName(faultKinds()[2]), faultName(faultKinds()[3])}})
				}
			}
		}
	}
}

func init() {
	register(&fx.Check{
		ID:    "C29",
		Level: "fault_enumeration",
		Rule: "every position of a single injected failure: (write) 4 marshal entry points × the small Go value corpus (thorough: plus a third of the full marshal corpus) × both destination kinds (plain io.Writer and io.StringWriter) × every Write/WriteString call index of the fault-free run × {0 or 1 bytes accepted} × {fails once, keeps failing}; " +
			"(encode) the CBE and CTE low-level encoders driven event by event over the I/O document corpus with the same fault scripts: the event during which the write fails must report it; " +
			"(read) 6 reader entry points × every document × every Read call index (incl. the call that would return EOF) × the 4 fault kinds, with full reads and with one-byte reads (every byte offset); oracle: the call returns a non-nil error whenever a failure was injected, and no panic escapes; distinct_nontrivial = distinct (entry, input, destination kind)",
		Assumptions: []string{"a conforming io.Writer reports an error whenever it accepts fewer bytes than given, so only (k, err) answers are injected", "low-level encoders report by panicking (documented contract)"},
		TrustedBase: []string{"env.Reader / env.Writer scripted I/O"},
		Guards:      map[string]int64{"faults_injected": 20000, "write_fault_runs": 5000, "read_fault_runs": 5000, "encode_fault_runs": 5000},
		Run:         c29Run,
		Replay: func(raw json.RawMessage) string {
			var w c29Witness
			if err := json.Unmarshal(raw, &w); err != nil {
				return err.Error()
			}
			c := fx.NewScratchCtx()
			switch w.Side {
			case "read":
				for _, e := range readEntries() {
					if e.name == w.Entry {
						c29Read(c, e, w.Doc, w.Script, "replay")
					}
				}
			case "write":
				for _, g := range append(append(gen.GoValues(0), c29ExtraValues()...), gen.GoValues(1)...) {
					if g.Name != w.Value {
						continue
					}
					for _, e := range writeEntries() {
						if e.name == w.Entry {
							c29Write(c, e, g, w.Script, w.StrW, "replay")
						}
					}
				}
			case "encode":
				f := codec.CBE
				if w.Entry == "cte-encoder" {
					f = codec.CTE
				}
				c29Encode(c, f, w.Events, w.Script, w.StrW, "replay")
			}
			return c.FirstViolation()
		},
	})
}
