package checks

import (
	"bytes"
	"encoding/json"
	"fmt"
	"math"
	"math/big"
	"strconv"
	"strings"
	"unsafe"

	"github.com/cockroachdb/apd/v2"
	compact_float "github.com/kstenerud/go-compact-float"

	"github.com/kstenerud/go-concise-encoding/cbe"
	"github.com/kstenerud/go-concise-encoding/ce"
	"github.com/kstenerud/go-concise-encoding/configuration"
	"github.com/kstenerud/go-concise-encoding/cte"
	"github.com/kstenerud/go-concise-encoding/rules"
	"verif/harness/internal/codec"
	"verif/harness/internal/ev"
	"verif/harness/internal/fx"
)

type c07Witness struct {
	Entry string `json:"entry"`
	Input []byte `json:"input"`
	Text  string `json:"input_as_text"`
	Tpl   string `json:"template,omitempty"`
}

type c07Entry struct {
	name string
	call func(doc []byte, tpl interface{}) error
}

// c07Config: bulk families run with a 1 MiB array limit so that declared-but-absent payloads stay cheap; the default
// configuration is exercised by family "default-config" (memory is C08's subject).
// c07LiftedLimit, when non-zero, replaces every rules limit (a user who lifts the limits): family 11.
var c07LiftedLimit uint64

func c07Config(rulesOn bool, small bool) *configuration.Configuration {
	cfg := configuration.New()
	cfg.Marshal.EnforceRules = rulesOn
	if v := c07LiftedLimit; v != 0 {
		r := &cfg.Rules
		r.MaxDocumentSizeBytes, r.MaxArraySizeBytes, r.MaxIdentifierLength, r.MaxObjectCount, r.MaxContainerDepth = v, v, v, v, v
		r.MaxIntegerDigitCount, r.MaxFloatCoefficientDigitCount, r.MaxFloatExponentDigitCount, r.MaxYearDigitCount, r.MaxMarkerCount, r.MaxLocalReferenceCount = v, v, v, v, v, v
		return cfg
	}
	if small {
		cfg.Rules.MaxArraySizeBytes = 1 << 20
		cfg.Rules.MaxDocumentSizeBytes = 1 << 24
	}
	return cfg
}

// fast entries: reused decoders/unmarshalers (re-created by the caller every few thousand cases)
type c07Fast struct {
	cbeDec, cteDec ce.Decoder
	cbeUn, cteUn   ce.Unmarshaler
	cfg            *configuration.Configuration
	n              int
}

func (f *c07Fast) refresh(rulesOn bool) {
	if f.n%5000 == 0 {
		f.cfg = c07Config(rulesOn, true)
		f.cbeDec, f.cteDec = ce.NewCBEDecoder(f.cfg), ce.NewCTEDecoder(f.cfg)
		f.cbeUn, f.cteUn = ce.NewCBEUnmarshaler(f.cfg), ce.NewCTEUnmarshaler(f.cfg)
	}
	f.n++
}

func c07Try(c *fx.Ctx, entry string, input []byte, tpl string, f func() error) {
	c.Add("evaluations", 1)
	err := safeCall(f)
	if err != nil && strings.HasPrefix(err.Error(), "ESCAPED PANIC") {
		msg := err.Error()
		c.Violation(fmt.Sprintf("%s:panic-escapes:%s", entry, errClass(fmt.Errorf("%s", strings.TrimPrefix(msg, "ESCAPED PANIC: ")))),
			fmt.Sprintf("%s lets a panic escape on input % x (%q), template %s: %s", entry, clipB(input), clipS(string(input)), tpl, clipS(msg)), c07Witness{Entry: entry, Input: input, Text: clipS(string(input)), Tpl: tpl})
	}
}

// c07Bulk: one input through the fast entry points (CBE or CTE chosen by the first byte, both when ambiguous)
func c07Bulk(c *fx.Ctx, fa *c07Fast, rulesOn bool, in []byte) {
	fa.refresh(rulesOn)
	c.TraceInput(func() string { return fmt.Sprintf("bulk rules=%v input=%x", rulesOn, in) })
	isCTE := len(in) > 0 && (in[0] == 'c' || in[0] == 'C')
	if !isCTE {
		c07Try(c, "cbe.Decoder.DecodeDocument", in, "", func() error {
			rec := &ev.Recorder{}
			if rulesOn {
				fa.cbeDec.DecodeDocument(in, rules.NewRules(rec, fa.cfg))
			} else {
				fa.cbeDec.DecodeDocument(in, rec)
			}
			return nil
		})
		c07Try(c, "cbe.Unmarshaler.UnmarshalFromDocument", in, "nil", func() error { fa.cbeUn.UnmarshalFromDocument(in, nil); return nil })
	}
	if isCTE || len(in) == 0 || in[0] != 0x81 {
		c07Try(c, "cte.Decoder.DecodeDocument", in, "", func() error {
			rec := &ev.Recorder{}
			if rulesOn {
				fa.cteDec.DecodeDocument(in, rules.NewRules(rec, fa.cfg))
			} else {
				fa.cteDec.DecodeDocument(in, rec)
			}
			return nil
		})
		c07Try(c, "cte.Unmarshaler.UnmarshalFromDocument", in, "nil", func() error { fa.cteUn.UnmarshalFromDocument(in, nil); return nil })
	}
}

// c07Slow: one input through every public one-shot entry point of package ce (default or small config)
func c07Slow(c *fx.Ctx, in []byte, tpl interface{}, tname string, rulesOn, small bool) {
	c.TraceInput(func() string {
		return fmt.Sprintf("one-shot rules=%v small=%v template=%s input=%x", rulesOn, small, tname, in)
	})
	cfg := func() *configuration.Configuration { return c07Config(rulesOn, small) }
	calls := []struct {
		name string
		f    func() error
	}{
		{"ce.UnmarshalFromCEDocument", func() error { _, err := ce.UnmarshalFromCEDocument(in, tpl, cfg()); return err }},
		{"ce.UnmarshalFromCBEDocument", func() error { _, err := ce.UnmarshalFromCBEDocument(in, tpl, cfg()); return err }},
		{"ce.UnmarshalFromCTEDocument", func() error { _, err := ce.UnmarshalFromCTEDocument(in, tpl, cfg()); return err }},
		{"ce.UnmarshalCE", func() error { _, err := ce.UnmarshalCE(bytes.NewReader(in), tpl, cfg()); return err }},
		{"ce.UnmarshalCBE", func() error { _, err := ce.UnmarshalCBE(bytes.NewReader(in), tpl, cfg()); return err }},
		{"ce.UnmarshalCTE", func() error { _, err := ce.UnmarshalCTE(bytes.NewReader(in), tpl, cfg()); return err }},
		{"ce.NewCEDecoder.DecodeDocument", func() error { return ce.NewCEDecoder(cfg()).DecodeDocument(in, rules.NewRules(&ev.Recorder{}, cfg())) }},
		{"ce.NewCEDecoder.Decode", func() error { return ce.NewCEDecoder(cfg()).Decode(bytes.NewReader(in), &ev.Recorder{}) }},
		{"ce.NewCBEDecoder.Decode", func() error { return ce.NewCBEDecoder(cfg()).Decode(bytes.NewReader(in), &ev.Recorder{}) }},
		{"ce.NewCTEDecoder.Decode", func() error { return ce.NewCTEDecoder(cfg()).Decode(bytes.NewReader(in), &ev.Recorder{}) }},
		{"cbe.Unmarshaler.Unmarshal", func() error { _, err := cbe.NewUnmarshaler(cfg()).Unmarshal(bytes.NewReader(in), tpl); return err }},
		{"cte.Unmarshaler.Unmarshal", func() error { _, err := cte.NewUnmarshaler(cfg()).Unmarshal(bytes.NewReader(in), tpl); return err }},
	}
	for _, cl := range calls {
		c07Try(c, cl.name, in, tname, cl.f)
	}
}

func c07Marshal(c *fx.Ctx, name string, v interface{}, recursion bool) {
	c07MarshalF(c, name, v, recursion, true)
}

func c07MarshalF(c *fx.Ctx, name string, v interface{}, recursion bool, text bool) {
	c.TraceInput(func() string { return fmt.Sprintf("marshal value=%s recursion=%v", name, recursion) })
	cfg := configuration.New()
	cfg.Iterator.RecursionSupport = recursion
	for _, m := range []struct {
		n string
		f func() error
	}{
		{"ce.MarshalToCBEDocument", func() error { _, err := ce.MarshalToCBEDocument(v, cfg); return err }},
		{"ce.MarshalToCTEDocument", func() error { _, err := ce.MarshalToCTEDocument(v, cfg); return err }},
		{"ce.MarshalCBE", func() error { return ce.MarshalCBE(v, &bytes.Buffer{}, cfg) }},
		{"ce.MarshalCTE", func() error { return ce.MarshalCTE(v, &bytes.Buffer{}, cfg) }},
	} {
		if !text && strings.Contains(m.n, "CTE") {
			continue // indented text grows with the square of the depth: only the binary form is asked of very deep values
		}
		c07Try(c, m.n, []byte(name), name, m.f)
	}
}

// self-embedding template types (embedded pointers; the names must be exported for reflect)
type C07SelfEmbed struct {
	*C07SelfEmbed
	X int
}
type C07EmbA struct {
	*C07EmbB
	A int
}
type C07EmbB struct {
	*C07EmbA
	B int
}

type c07Cyc struct {
	V    int
	Next *c07Cyc
}

func c07Templates() []struct {
	name string
	t    interface{}
} {
	type withChan struct {
		A int
		C chan int
	}
	type withFunc struct{ F func() }
	type embedsPtr struct {
		*c07Cyc
		B int
	}
	return []struct {
		name string
		t    interface{}
	}{
		{"nil", nil}, {"int", 0}, {"string", ""}, {"[]interface{}", []interface{}{}}, {"map[string]interface{}", map[string]interface{}{}}, {"[]int", []int{}}, {"[]bool", []bool{}}, {"struct", c16T1{}}, {"*struct", &c16T1{}}, {"recursive-struct", c07Cyc{}},
		{"chan", make(chan int)}, {"func", func() {}}, {"complex128", complex(1, 2)}, {"unsafe.Pointer", unsafe.Pointer(nil)}, {"struct-with-chan", withChan{}}, {"struct-with-func", withFunc{}}, {"[]func()", []func(){}},
		{"map[string]chan int", map[string]chan int{}}, {"embedded-pointer", embedsPtr{}}, {"uintptr", uintptr(0)}, {"[3]chan int", [3]chan int{}}, {"**int", (**int)(nil)}, {"interface-holding-chan", []interface{}{make(chan int)}},
		{"self-embedding-pointer", C07SelfEmbed{}}, {"mutually-embedding-pointers", C07EmbA{}}, {"*self-embedding-pointer", &C07SelfEmbed{}},
	}
}

func c07Run(c *fx.Ctx) {
	corpus := ioCorpus(0)
	// family 1: empty, every 1- and 2-byte string: bulk (rules on and off) + every one-shot entry point with the default configuration
	for hi := -1; hi < 256; hi++ {
		if !c.Take() {
			continue
		}
		fa := &c07Fast{}
		fb := &c07Fast{}
		if hi < 0 {
			c07Bulk(c, fa, true, []byte{})
			c07Slow(c, []byte{}, nil, "nil", true, false)
			c07Slow(c, []byte{}, nil, "nil", false, false)
			c07Slow(c, nil, nil, "nil", true, false)
			continue
		}
		c07Slow(c, []byte{byte(hi)}, nil, "nil", true, false)
		for lo := 0; lo < 256; lo++ {
			in := []byte{byte(hi), byte(lo)}
			c07Bulk(c, fa, true, in)
			c07Bulk(c, fb, false, in)
			if lo%16 == hi%16 {
				c07Slow(c, in, nil, "nil", true, false)
			}
		}
		c.Distinct("nontrivial", fmt.Sprintf("f1-%d", hi))
	}
	// family 2: CBE header + every string of length <= 2 over all bytes, length 3 over a 40-byte class alphabet, length 4/5 over 16 bytes
	classes := []byte{0x00, 0x01, 0x64, 0x65, 0x66, 0x68, 0x69, 0x6a, 0x6e, 0x70, 0x71, 0x72, 0x76, 0x77, 0x78, 0x79, 0x7a, 0x7b, 0x7c, 0x7d, 0x7e, 0x7f, 0x80, 0x81, 0x8f, 0x90, 0x91, 0x92, 0x93, 0x94, 0x95, 0x97, 0x98, 0x99, 0x9a, 0x9b, 0xe0, 0xf3, 0xfe, 0xff}
	small := []byte{0x00, 0x01, 0x7f, 0x80, 0x81, 0x90, 0x93, 0x94, 0x97, 0x98, 0x99, 0x9a, 0x9b, 0xf0, 0xf3, 0xff}
	for a := 0; a < 256; a++ {
		if !c.Take() {
			continue
		}
		fa, fb := &c07Fast{}, &c07Fast{}
		c07Bulk(c, fa, true, []byte{0x81, 0x00, byte(a)})
		for b := 0; b < 256; b++ {
			in := []byte{0x81, 0x00, byte(a), byte(b)}
			c07Bulk(c, fa, true, in)
			c07Bulk(c, fb, false, in)
		}
		c.Distinct("nontrivial", fmt.Sprintf("f2a-%d", a))
		if a%64 == 7 {
			c.Sample(fmt.Sprintf("family 2: 81 00 %02x xx for all xx, rules on and off, through the CBE decoder and unmarshaler", a))
		}
	}
	for _, a := range classes {
		for _, b := range classes {
			if !c.Take() {
				continue
			}
			fa, fb := &c07Fast{}, &c07Fast{}
			for _, d := range classes {
				in := []byte{0x81, 0x00, a, b, d}
				c07Bulk(c, fa, true, in)
				c07Bulk(c, fb, false, in)
			}
			for _, d := range small {
				for _, e := range small {
					c07Bulk(c, fa, true, []byte{0x81, 0x00, a, b, d, e})
					if c.Thorough() {
						for _, g := range small {
							c07Bulk(c, fa, true, []byte{0x81, 0x00, a, b, d, e, g})
						}
					}
				}
			}
			c.Distinct("nontrivial", fmt.Sprintf("f2b-%d-%d", a, b))
		}
	}
	// family 3: CTE header + token strings of <= 3 (quick) / 4 (thorough) tokens
	tokens := []string{"[", "]", "{", "}", "(", ")", "@(", "=", "null", "true", "1", "-1", "0x", "0x1p", "1.5", "1e", "nan", "\"", "\"a\"", "\"\\", "\\.Z ", "\\[41]", "@\"", "$\"", "@u8[", "@u8x[", "@f32[", "@b[", "@uid[", "1 ", "ff", "@a/b[", "@1[", "@1\"",
		"&a:", "$a", "@r<", ">", "@r{", "//c\n", "/*", "*/", "2000-01-01", "/1:00:00", "/Z", " ", "\n", "00000000-0000-0000-0000-000000000000", "|", "\x00", "\xc3"}
	maxTok := c.Pick(3, 4)
	for _, t1 := range tokens {
		for _, t2 := range tokens {
			if !c.Take() {
				continue
			}
			fa := &c07Fast{}
			c07Bulk(c, fa, true, []byte("c0\n"+t1+t2))
			for _, t3 := range tokens {
				c07Bulk(c, fa, true, []byte("c0\n"+t1+t2+t3))
				if maxTok >= 4 {
					for _, t4 := range tokens {
						c07Bulk(c, fa, true, []byte("c0\n"+t1+t2+t3+t4))
					}
				}
			}
			c.Distinct("nontrivial", "f3-"+t1+t2)
		}
	}
	// family 4: one deviation from valid documents: every truncation, every single-byte substitution / insertion / deletion;
	// length-like positions replaced by huge ULEB128 values
	huge := [][]byte{{0xff, 0xff, 0x03}, {0xff, 0xff, 0xff, 0xff, 0x0f}, {0xff, 0xff, 0xff, 0xff, 0xff, 0xff, 0xff, 0xff, 0x7f}, {0xfe, 0xff, 0xff, 0xff, 0xff, 0xff, 0xff, 0xff, 0xff, 0x01}}
	for _, d := range corpus {
		for _, doc := range [][]byte{d.cbe, d.cte} {
			if doc == nil || !c.Take() {
				continue
			}
			isCBE := doc[0] == 0x81
			if len(doc) > 120 {
				doc = doc[:120]
			}
			fa, fb := &c07Fast{}, &c07Fast{}
			for k := 0; k <= len(doc); k++ {
				c07Bulk(c, fa, true, doc[:k])
				if k == len(doc) {
					break
				}
				vals := 256
				step := 1
				if !isCBE {
					step = 5 // text: a 52-value sample of byte values per position in quick
					if c.Thorough() {
						step = 1
					}
				}
				for v := 0; v < vals; v += step {
					m := append([]byte{}, doc...)
					m[k] = byte(v)
					c07Bulk(c, fa, true, m)
					if isCBE && v%4 == 0 {
						c07Bulk(c, fb, false, m)
					}
					if v%8 == 0 {
						ins := append(append(append([]byte{}, doc[:k]...), byte(v)), doc[k:]...)
						c07Bulk(c, fa, true, ins)
					}
				}
				del := append(append([]byte{}, doc[:k]...), doc[k+1:]...)
				c07Bulk(c, fa, true, del)
				if isCBE {
					for _, h := range huge {
						m := append(append(append([]byte{}, doc[:k]...), h...), doc[k+1:]...)
						c07Bulk(c, fa, true, m)
						c07Bulk(c, fb, false, m)
					}
				}
			}
			c.Distinct("nontrivial", "f4-"+string(doc))
		}
	}
	// family 5: long runs of one opener
	openers := [][]byte{{0x9a}, {0x99}, {0x97}, {0x98}, {0x7f, 0xf0, 0x01, 'a'}, {0x99, 0x81, 'a'}, {0x7f, 0xf1, 0x01, 'r'}}
	topeners := []string{"[", "{", "(", "@(", "&a:", "{\"a\"=", "/*", "@r{", "[[{\"a\"=(1 "}
	for _, n := range []int{10, 1000, c.Pick(20000, 100000)} {
		for _, o := range openers {
			if !c.Take() {
				continue
			}
			in := append([]byte{0x81, 0x00}, bytes.Repeat(o, n)...)
			fa := &c07Fast{}
			c07Bulk(c, fa, true, in)
			c07Bulk(c, &c07Fast{}, false, in)
			c.Distinct("nontrivial", fmt.Sprintf("f5-%x-%d", o, n))
		}
		for _, o := range topeners {
			if !c.Take() {
				continue
			}
			if n > 1500 {
				n = 1500 // the ANTLR runtime is quadratic in nesting depth (C08's subject): deeper text would stall, not hang
			}
			in := []byte("c0\n" + strings.Repeat(o, n))
			c07Bulk(c, &c07Fast{}, true, in)
			c.Distinct("nontrivial", fmt.Sprintf("f5-%s-%d", o, n))
		}
	}
	// family 6: templates of every kind (incl. unsupported) × a document corpus, through every one-shot entry point
	for _, t := range c07Templates() {
		for di, d := range corpus {
			if di%7 != 0 && !c.Thorough() {
				continue
			}
			if !c.Take() {
				continue
			}
			for _, doc := range [][]byte{d.cbe, d.cte} {
				if doc != nil {
					c07Slow(c, doc, t.t, t.name, true, true)
				}
			}
			c.Distinct("nontrivial", "f6-"+t.name+d.name)
		}
	}
	// family 7: marshaling values of unsupported kinds, and cyclic values with recursion support
	if c.Take() {
		for _, t := range c07Templates() {
			c07Marshal(c, t.name, t.t, false)
			c07Marshal(c, t.name, t.t, true)
		}
		cyc := &c07Cyc{V: 1}
		cyc.Next = cyc
		c07Marshal(c, "cyclic-with-recursion-support", cyc, true)
	}
	for _, depth := range []int{1000, 100000, 3000000} {
		if !c.Take() {
			continue
		}
		c.Checkpoint()
		deep := &c07Cyc{}
		cur := deep
		for i := 0; i < depth; i++ {
			cur.Next = &c07Cyc{V: i}
			cur = cur.Next
		}
		c07MarshalF(c, "deep-chain-"+map[int]string{1000: "1e3", 100000: "1e5", 3000000: "3e6"}[depth], deep, false, depth <= 1000)
	}
	if c.Take() {
		c.Checkpoint()
		cyc := &c07Cyc{V: 1}
		cyc.Next = cyc
		c07Marshal(c, "cyclic-without-recursion-support", cyc, false)
	}
	// family 8: a lying length in front of a substantial payload: every array type byte × huge declared element counts ×
	// 70000 / 140000 bytes that really follow, then EOF — through the raw decoders (no rules) and with rules
	for _, tb := range []byte{0x90, 0x91, 0x92, 0x93, 0x94, 0x95, 0x96, 0x97, 0x98, 0x99, 0x9a, 0x9b, 0x9c, 0x9d, 0x9e, 0x9f} {
		if !c.Take() {
			continue
		}
		c.Checkpoint()
		for _, declared := range []uint64{1 << 40, 1 << 62, 1<<31 + 1} {
			for _, actual := range []int{70000, 140000} {
				in := []byte{0x81, 0x00}
				switch {
				case tb >= 0x97 && tb <= 0x9b: // containers / non-array types: put a uint8 array inside a list instead
					in = append(in, 0x9a, 0x93)
				default:
					in = append(in, tb)
				}
				in = append(in, uleb(declared<<1)...)
				pay := make([]byte, actual)
				for i := range pay {
					pay[i] = byte('a' + i%26)
				}
				in = append(in, pay...)
				for _, rulesOn := range []bool{false, true} {
					cfg := c07Config(rulesOn, false)
					c.TraceInput(func() string {
						return fmt.Sprintf("lying-length type=%02x declared=%d actual=%d rules=%v", tb, declared, actual, rulesOn)
					})
					c07Try(c, "cbe.Decoder.Decode(reader)", in[:16], "", func() error {
						rec := &ev.Recorder{}
						if rulesOn {
							return cbe.NewDecoder(cfg).Decode(bytes.NewReader(in), rules.NewRules(rec, cfg))
						}
						return cbe.NewDecoder(cfg).Decode(bytes.NewReader(in), rec)
					})
					c07Try(c, "cbe.Decoder.DecodeDocument", in[:16], "", func() error {
						rec := &ev.Recorder{}
						if rulesOn {
							return cbe.NewDecoder(cfg).DecodeDocument(in, rules.NewRules(rec, cfg))
						}
						return cbe.NewDecoder(cfg).DecodeDocument(in, rec)
					})
					c07Try(c, "ce.UnmarshalCE", in[:16], "nil", func() error { _, err := ce.UnmarshalCE(bytes.NewReader(in), nil, cfg); return err })
					c07Try(c, "ce.UnmarshalFromCBEDocument", in[:16], "nil", func() error { _, err := ce.UnmarshalFromCBEDocument(in, nil, cfg); return err })
				}
			}
		}
		c.Distinct("nontrivial", fmt.Sprintf("f8-%02x", tb))
	}
	// family 9: numbers at the ends of the exponent range into every numeric template (a conversion must not start an
	// astronomically long computation): coefficient × exponent × sign, as CTE text and as CBE decimal floats
	type numTpl struct {
		name string
		t    interface{}
	}
	numTpls := []numTpl{{"nil", nil}, {"*big.Int", (*big.Int)(nil)}, {"big.Int", big.Int{}}, {"int64", int64(0)}, {"uint64", uint64(0)}, {"int8", int8(0)}, {"float64", float64(0)}, {"float32", float32(0)},
		{"*big.Float", (*big.Float)(nil)}, {"big.Float", big.Float{}}, {"*apd.Decimal", (*apd.Decimal)(nil)}, {"apd.Decimal", apd.Decimal{}}, {"compact_float.DFloat", compact_float.DFloat{}}, {"[]interface{}", []interface{}{}}}
	for _, coef := range []string{"1", "15", "123", "9999999999999999999", "123456789012345678901234567890"} {
		for _, exp := range []int64{2147483647, 2147483646, 2147483640, 2147483600, 1000000000, 100000000, 1000000, -2147483648, -2147483647, -2147483600, -1000000000, -1000000} {
			if !c.Take() {
				continue
			}
			c.Checkpoint()
			for _, sign := range []string{"", "-"} {
				text := []byte(fmt.Sprintf("c0 %s%se%d", sign, coef, exp))
				var bin []byte
				if cv, err := strconv.ParseInt(coef, 10, 64); err == nil {
					if sign == "-" {
						cv = -cv
					}
					bin, _, _ = codec.Encode(codec.CBE, []ev.E{ev.EBD(), ev.EV(0), ev.EDFloat(compact_float.DFloatValue(int32(exp), cv)), ev.EED()}, nil, true)
				}
				for _, t := range numTpls {
					c.TraceInput(func() string { return fmt.Sprintf("extreme-number %s into %s", text, t.name) })
					cfg := configuration.New()
					c07Try(c, "ce.UnmarshalFromCTEDocument", text, t.name, func() error { _, err := ce.UnmarshalFromCTEDocument(text, t.t, cfg); return err })
					if bin != nil {
						c07Try(c, "ce.UnmarshalFromCBEDocument", bin, t.name, func() error { _, err := ce.UnmarshalFromCBEDocument(bin, t.t, cfg); return err })
					}
					c.Add("extreme_number_cases", 1)
				}
			}
			c.Distinct("nontrivial", fmt.Sprintf("f9-%s-%d", coef, exp))
		}
	}
	// family 11: every rules limit lifted to the top of its range (constructors run before any recover() is installed)
	for _, lim := range []uint64{math.MaxUint64, math.MaxInt64, 1 << 62} {
		for di, d := range corpus {
			if di >= 8 {
				break
			}
			if !c.Take() {
				continue
			}
			c.Checkpoint()
			c07LiftedLimit = lim
			for _, doc := range [][]byte{d.cbe, d.cte} {
				if doc != nil {
					c07Slow(c, doc, nil, "nil", true, false)
					c07Try(c, "rules.NewRules", doc, "", func() error { rules.NewRules(&ev.Recorder{}, c07Config(true, false)); return nil })
				}
			}
			c07LiftedLimit = 0
			c.Distinct("nontrivial", fmt.Sprintf("f11-%d-%s", lim, d.name))
		}
	}
	// family 10 (last, because each member may kill its worker): self-referential template types, and hex floats whose
	// binary exponent is astronomically large, into numeric templates
	type recPtr *recPtr
	type recSlice []recSlice
	smallDoc := []byte{0x81, 0x00, 0x9a, 0x01, 0x9b}
	for _, t := range []numTpl{{"recursive-pointer-type", recPtr(nil)}, {"recursive-slice-type", recSlice(nil)}} {
		if !c.Take() {
			continue
		}
		c.Checkpoint()
		c.TraceInput(func() string { return "recursive-template " + t.name })
		c07Try(c, "ce.UnmarshalFromCBEDocument", smallDoc, t.name, func() error { _, err := ce.UnmarshalFromCBEDocument(smallDoc, t.t, configuration.New()); return err })
		c07Try(c, "ce.UnmarshalFromCTEDocument", []byte("c0 [1]"), t.name, func() error {
			_, err := ce.UnmarshalFromCTEDocument([]byte("c0 [1]"), t.t, configuration.New())
			return err
		})
		c.Distinct("nontrivial", "f10-"+t.name)
	}
	for _, lit := range []string{"0x1p2000000000", "-0x1p2000000000", "0x1p-2000000000", "0x1.8p1000000000", "0x1p2147483647"} {
		for _, t := range []numTpl{{"int64", int64(0)}, {"uint64", uint64(0)}, {"float64", float64(0)}, {"*big.Int", (*big.Int)(nil)}, {"*big.Float", (*big.Float)(nil)}, {"nil", nil}} {
			if !c.Take() {
				continue
			}
			c.Checkpoint()
			text := []byte("c0 " + lit)
			c.TraceInput(func() string { return fmt.Sprintf("huge-hex-exponent %s into %s", text, t.name) })
			c07Try(c, "ce.UnmarshalFromCTEDocument", text, t.name, func() error { _, err := ce.UnmarshalFromCTEDocument(text, t.t, configuration.New()); return err })
			c.Distinct("nontrivial", "f10-"+lit+t.name)
		}
	}
}

func init() {
	register(&fx.Check{
		ID:           "C07",
		Level:        "exploration",
		StallSeconds: 40,
		MemLimitKB:   6 * 1024 * 1024,
		Rule: "inputs, each family enumerated completely, run in isolated worker processes (address-space limit, stall watchdog; a dead or stalled worker is re-run in trace mode to pin the input): (1) empty, every 1- and 2-byte string; (2) CBE header + every string of length <=2 over all bytes, length 3 over a 40-byte class alphabet, length 4 (quick) / 5 (thorough) over a 16-byte alphabet; " +
			"(3) CTE header + every string of <=3 (quick) / 4 (thorough) tokens over a 51-token alphabet (brackets, literal starters, array headers, escapes, comment delimiters, markers, partial tokens, invalid bytes); (4) one deviation from each corpus document: every truncation, single-byte substitution, insertion, deletion, and huge ULEB128 values spliced in at every position; (5) runs of 10 / 1000 / 20000-100000 openers of every container kind; " +
			"(6) 23 template kinds incl. unsupported ones (chan, func, complex, unsafe.Pointer, structs/slices/maps holding them, embedded pointers) × the document corpus through 12 one-shot entry points; (7) marshaling values of every such kind, cyclic values, and a 100000-deep chain; rules on and off; oracle: every call returns (value or error): an escaped panic, a dead worker or a stall is a violation; distinct_nontrivial = enumeration units completed",
		Assumptions: []string{"bulk families go through reused decoders/unmarshalers re-created every 5000 inputs with MaxArraySizeBytes = 1 MiB (memory is C08's subject); the default configuration is used for families 1 and 6", "stall = no progress for 40 s (cases take microseconds)"},
		TrustedBase: []string{"worker isolation in internal/fx (ulimit -v, heartbeat watchdog, trace-mode pinning)"},
		Guards:      map[string]int64{"evaluations": 2000000},
		Run:         c07Run,
		Replay: func(raw json.RawMessage) string {
			var w c07Witness
			if err := json.Unmarshal(raw, &w); err != nil {
				return err.Error()
			}
			c := fx.NewScratchCtx()
			c07Bulk(c, &c07Fast{}, true, w.Input)
			c07Bulk(c, &c07Fast{}, false, w.Input)
			c07Slow(c, w.Input, nil, "nil", true, true)
			return c.FirstViolation()
		},
	})
}
