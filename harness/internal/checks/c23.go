package checks

import (
	"bytes"
	"fmt"

	"github.com/kstenerud/go-concise-encoding/ce/events"
	"verif/harness/internal/codec"
	"verif/harness/internal/ev"
	"verif/harness/internal/fx"
	"verif/harness/internal/gen"
)

func c23Run(c *fx.Ctx) {
	ctxs := gen.Contexts()
	actx := []gen.Context{ctxs[0], ctxs[1], ctxs[4], ctxs[3],
		{Name: "after-comment", Pre: []ev.E{ev.EList(), ev.ECom(false, "c")}, Post: []ev.E{ev.EEnd()}},
		{Name: "node-child", Pre: []ev.E{ev.ENode(), ev.ENull()}, Post: []ev.E{ev.EEnd()}}}
	lengths := []int{0, 1, 2, 3, 4, 5, 6, 8, 15, 16, 17}
	if !c.Thorough() {
		lengths = []int{0, 1, 2, 3, 4, 5, 9, 16}
	}
	fullMax := c.Pick(4, 6)
	for _, k := range gen.ArrayKinds() {
		for _, n := range lengths {
			if !c.Take() {
				continue
			}
			content := k.Content(n)
			cnt := n
			if k.Text {
				cnt = len(content)
			}
			sp := arrSpec{name: k.Name, at: k.AT, begin: k.Begin(), elemBytes: k.ElemBytes, stringLike: k.Text}
			maxCuts := 1 << 30
			if len(content) > 8 {
				maxCuts = 3
			}
			if cnt > fullMax {
				maxCuts = 1
			}
			for _, cx := range actx {
				if cx.KeyOnly && k.AT != events.ArrayTypeString && k.AT != events.ArrayTypeResourceID {
					continue
				}
				ref := k.Whole(content, cnt)[0]
				refDoc := cx.Wrap(ref)
				refText, _, err := codec.Encode(codec.CTE, refDoc, nil, true)
				if err != nil {
					c.Violation("whole-form-fails:"+k.Name, fmt.Sprintf("CTE encoder fails on whole array: %v [%s]", err, clipS(ev.Join(refDoc))), rtWitness{Format: "cte", Events: refDoc})
					continue
				}
				check := func(seq []ev.E, form string) {
					doc := cx.Wrap(seq...)
					text, _, err := codec.Encode(codec.CTE, doc, nil, true)
					c.Add("evaluations", 1)
					c.Distinct("nontrivial", ev.Join(doc))
					if err != nil {
						c.Violation("chunked-form-fails:"+k.Name+":"+form, fmt.Sprintf("CTE encoder fails (%v) on [%s]", err, clipS(ev.Join(doc))), rtWitness{Format: "cte", Events: doc})
						return
					}
					if !bytes.Equal(text, refText) {
						c.Violation("text-depends-on-chunking:"+k.Name+":"+form,
							fmt.Sprintf("CTE text differs from the whole-array text: %q vs %q for [%s]", clipS(string(text)), clipS(string(refText)), clipS(ev.Join(doc))), rtWitness{Format: "cte", Events: doc, Text: string(text)})
					}
				}
				for _, w := range k.Whole(content, cnt)[1:] {
					check([]ev.E{w}, "whole-alt")
				}
				if cnt <= fullMax {
					chunkedForms(sp, content, cnt, maxCuts, func(id int, seq []ev.E) {
						if k.Text && !chunksOnCharBoundaries(seq) {
							return
						}
						full := append([]ev.E{sp.begin}, seq...)
						check(full, formName(full))
					})
				} else {
					// long arrays: one chunk and every two-chunk split, each with at most one data-event cut at every byte offset
					eb := k.ElemBytes
					bytesOf := func(elems int) int {
						if eb == 0 {
							return (elems + 7) / 8
						}
						return elems * eb
					}
					for first := cnt; first >= 1; first-- {
						if eb == 0 && first != cnt && first%8 != 0 {
							continue
						}
						fb := bytesOf(first)
						for cut := 0; cut < len(content); cut++ {
							var seq []ev.E
							seq = append(seq, sp.begin, ev.EChunk(uint64(first), first != cnt))
							if cut > 0 && cut < fb {
								seq = append(seq, ev.EData(content[:cut]), ev.EData(content[cut:fb]))
							} else {
								seq = append(seq, ev.EData(content[:fb]))
							}
							if first != cnt {
								seq = append(seq, ev.EChunk(uint64(cnt-first), false))
								if cut > fb {
									seq = append(seq, ev.EData(content[fb:cut]), ev.EData(content[cut:]))
								} else {
									seq = append(seq, ev.EData(content[fb:]))
								}
							}
							if k.Text && !chunksOnCharBoundaries(seq[1:]) {
								continue
							}
							check(seq, formName(seq))
						}
					}
				}
				if c.Index()%13 == 0 {
					c.Sample(fmt.Sprintf("%s n=%d in %s -> %q", k.Name, cnt, cx.Name, clipS(string(refText))))
				}
			}
		}
	}
	// every code point as a one-character text value: the text written for the byte-delivered and chunked forms must
	// equal the text written for OnStringlikeArray (64 values per document, bisected on difference)
	type tform struct {
		name string
		f    func(at events.ArrayType, b []byte) []ev.E
	}
	tforms := []tform{
		{"bytes", func(at events.ArrayType, b []byte) []ev.E { return []ev.E{ev.EArr(at, uint64(len(b)), b)} }},
		{"one-chunk", func(at events.ArrayType, b []byte) []ev.E {
			return []ev.E{ev.EABegin(at), ev.EChunk(uint64(len(b)), false), ev.EData(b)}
		}},
		{"split-data", func(at events.ArrayType, b []byte) []ev.E {
			return []ev.E{ev.EABegin(at), ev.EChunk(uint64(len(b)), false), ev.EData(b[:1]), ev.EData(b[1:])}
		}},
	}
	mk := func(at events.ArrayType, rs []rune, f func(at events.ArrayType, b []byte) []ev.E) []ev.E {
		doc := []ev.E{ev.EBD(), ev.EV(0), ev.EList()}
		for _, r := range rs {
			doc = append(doc, f(at, []byte("x"+string(r)))...)
		}
		return append(doc, ev.EEnd(), ev.EED())
	}
	for base := 0; base < 0x110000; base += 64 {
		if !c.Take() {
			continue
		}
		var runes []rune
		for cp := base; cp < base+64; cp++ {
			if cp < 0xD800 || cp > 0xDFFF {
				runes = append(runes, rune(cp))
			}
		}
		if len(runes) == 0 {
			continue
		}
		for _, at := range []events.ArrayType{events.ArrayTypeString, events.ArrayTypeResourceID, events.ArrayTypeReferenceRemote} {
			for _, tf := range tforms {
				var try func(rs []rune)
				try = func(rs []rune) {
					refDoc := mk(at, rs, func(at events.ArrayType, b []byte) []ev.E { return []ev.E{ev.ESArr(at, string(b))} })
					doc := mk(at, rs, tf.f)
					ref, _, err1 := codec.Encode(codec.CTE, refDoc, nil, true)
					text, _, err2 := codec.Encode(codec.CTE, doc, nil, true)
					c.Add("evaluations", 1)
					c.Add("codepoint_form_docs", 1)
					if (err1 == nil) == (err2 == nil) && bytes.Equal(ref, text) {
						return
					}
					if len(rs) > 1 {
						try(rs[:len(rs)/2])
						try(rs[len(rs)/2:])
						return
					}
					c.Violation(fmt.Sprintf("text-depends-on-delivery-form:%s:%s:%s", at, tf.name, charClass(rs[0])),
						fmt.Sprintf("code point U+%04X delivered as %s writes %q (err=%v) but as OnStringlikeArray %q (err=%v)", rs[0], tf.name, clipS(string(text)), err2, clipS(string(ref)), err1),
						rtWitness{Format: "cte", Events: doc, Text: string(text)})
				}
				try(runes)
			}
		}
	}

	// sequences: the text of a chunked array must not depend on what the same encoder wrote before it — every
	// representative value (all kinds, whole and chunked) followed by every array kind in its chunked forms
	for _, pred := range gen.Representatives() {
		if !c.Take() {
			continue
		}
		for _, k := range gen.ArrayKinds() {
			n := 3
			content := k.Content(n)
			if k.Text {
				n = len(content)
			}
			sp := arrSpec{name: k.Name, at: k.AT, begin: k.Begin(), elemBytes: k.ElemBytes, stringLike: k.Text}
			wrap := func(target []ev.E) []ev.E {
				d := []ev.E{ev.EBD(), ev.EV(0), ev.EList()}
				d = append(d, pred...)
				d = append(d, target...)
				return append(d, ev.EEnd(), ev.EED())
			}
			refDoc := wrap([]ev.E{k.Whole(content, n)[0]})
			ref, _, err1 := codec.Encode(codec.CTE, refDoc, nil, true)
			if err1 != nil {
				continue
			}
			chunkedForms(sp, content, n, 2, func(id int, seq []ev.E) {
				if k.Text && !chunksOnCharBoundaries(seq) {
					return
				}
				doc := wrap(append([]ev.E{sp.begin}, seq...))
				text, _, err2 := codec.Encode(codec.CTE, doc, nil, true)
				c.Add("evaluations", 1)
				c.Add("sequence_docs", 1)
				if err2 != nil || !bytes.Equal(ref, text) {
					c.Violation(fmt.Sprintf("text-depends-on-chunking-after-previous-value:%s:after-%s", k.Name, valueClass(pred[0])),
						fmt.Sprintf("after %s, the %s array delivered in chunks writes %q (err=%v) but delivered whole %q: [%s]", valueClass(pred[0]), k.Name, clipS(string(text)), err2, clipS(string(ref)), clipS(ev.Join(doc))),
						rtWitness{Format: "cte", Events: doc, Text: string(text)})
				}
			})
		}
	}

	// textual idempotence over the C02 corpus
	o := corpusOpts{structDepth: c.Pick(5, 6), floatStride: c.Pick(64, 8), latlong: 20, arrayFullMax: c.Pick(3, 5), comments: true, customText: true}
	forEachCorpusDoc(c, o, func(doc []ev.E, cls string) {
		if _, err := codec.ValidateEvents(doc, nil); err != nil {
			return
		}
		t1, _, err := codec.Encode(codec.CTE, doc, nil, true)
		if err != nil {
			return // C02's subject
		}
		got, err := codec.Decode(codec.CTE, t1, nil, true)
		if err != nil {
			return // C02's subject
		}
		t2, _, err := codec.Encode(codec.CTE, got, nil, true)
		c.Add("evaluations", 1)
		c.Add("idempotence_cases", 1)
		if err != nil || !bytes.Equal(t1, t2) {
			c.Violation("idempotence:"+cls, fmt.Sprintf("re-encoding the decoded CTE differs: first %q, second %q (err=%v) for [%s]", clipS(string(t1)), clipS(string(t2)), err, clipS(ev.Join(doc))),
				rtWitness{Format: "cte", Events: doc, Text: string(t1)})
		}
	})
}

func init() {
	register(&fx.Check{
		ID:    "C23",
		Level: "exploration",
		Rule: "every array kind × lengths {0..6,8,15,16,17} × every chunking × every data-event split (all splits for <=5/6 elements and payloads <=8 bytes, else <=3 cuts at every byte offset) × 6 contexts: emitted CTE must equal, byte for byte, the text emitted for the whole-array event; " +
			"every Unicode code point as a one-character string / resource ID / remote reference delivered as bytes, one chunk and split data must write the same text as OnStringlikeArray; " +
			"plus textual idempotence encode(decode(encode(x)))==encode(x) over the C02 corpus; distinct_nontrivial = distinct chunked documents",
		Assumptions: []string{"string-like chunkings are restricted to chunks ending on character boundaries (others are invalid per C11)"},
		TrustedBase: []string{"none beyond the whole-array form as reference (differential)"},
		Guards:      map[string]int64{"distinct:nontrivial": 20000, "idempotence_cases": 10000},
		Run:         c23Run,
		Replay:      replayRoundTrip,
	})
}
