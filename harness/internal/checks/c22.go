package checks

import (
	"bytes"
	"encoding/binary"
	"encoding/json"
	"fmt"
	"math"
	"math/big"

	"github.com/kstenerud/go-concise-encoding/cbe"
	"github.com/kstenerud/go-concise-encoding/ce/events"
	"github.com/kstenerud/go-concise-encoding/configuration"
	"verif/harness/internal/codec"
	"verif/harness/internal/ev"
	"verif/harness/internal/fx"
	"verif/harness/internal/gen"
	"verif/harness/internal/nf"
)

func ulebLen(v uint64) int {
	n := 1
	for v >= 0x80 {
		v >>= 7
		n++
	}
	return n
}

// refIntSize: minimal CBE size of an integer value per the CBE specification's integer forms.
func refIntSize(v *big.Int) int {
	m := new(big.Int).Abs(v)
	nbytes := (m.BitLen() + 7) / 8
	switch {
	case m.Cmp(big.NewInt(100)) <= 0:
		return 1
	case nbytes <= 1:
		return 2
	case nbytes <= 2:
		return 3
	case nbytes <= 4:
		return 5 // 32-bit form; the variable-length form of a 3-byte value ties
	case nbytes <= 7:
		return 2 + nbytes // variable length: type, length, bytes (ties with the 64-bit form at 7 bytes)
	case nbytes == 8:
		return 9
	}
	return 1 + ulebLen(uint64(nbytes)) + nbytes
}

func refFloatSize(f float64) (size int, fixed bool) {
	if f != f || math.IsInf(f, 0) || f == 0 {
		return 3, false // compact special forms: only an upper bound is claimed
	}
	f32 := float32(f)
	if float64(f32) == f {
		if math.Float32bits(f32)&0xffff == 0 {
			return 3, true
		}
		return 5, true
	}
	return 9, true
}

// refDecodeFloat: independent decoding of the three binary float forms (little endian).
func refDecodeFloat(b []byte) (float64, bool) {
	switch {
	case len(b) == 3 && b[0] == 0x70:
		return float64(math.Float32frombits(uint32(binary.LittleEndian.Uint16(b[1:])) << 16)), true
	case len(b) == 5 && b[0] == 0x71:
		return float64(math.Float32frombits(binary.LittleEndian.Uint32(b[1:]))), true
	case len(b) == 9 && b[0] == 0x72:
		return math.Float64frombits(binary.LittleEndian.Uint64(b[1:])), true
	}
	return 0, false
}

type c22Witness struct {
	Kind   string `json:"kind"`
	Events []ev.E `json:"events,omitempty"`
	Bits   uint64 `json:"float_bits,omitempty"`
	Want   int    `json:"want_size,omitempty"`
	Got    []byte `json:"got,omitempty"`
}

func c22Run(c *fx.Ctx) {
	// --- integers: every value within ±window of each boundary, every event form
	window := int64(c.Pick(120, 300))
	bounds := []*big.Int{big.NewInt(0), big.NewInt(100), big.NewInt(-100), gen.Pow2(8), gen.Pow2(16), gen.Pow2(24), gen.Pow2(32), gen.Pow2(40), gen.Pow2(48), gen.Pow2(56), gen.Pow2(63), gen.Pow2(64), gen.Pow2(72)}
	for _, b := range bounds {
		for _, sign := range []int64{1, -1} {
			if !c.Take() {
				continue
			}
			for d := -window; d <= window; d++ {
				v := new(big.Int).Add(b, big.NewInt(d))
				if sign < 0 {
					v.Neg(v)
				}
				for _, e := range gen.IntForms(v) {
					doc := []ev.E{ev.EBD(), ev.EV(0), e, ev.EED()}
					enc, _, err := codec.Encode(codec.CBE, doc, nil, true)
					c.Add("evaluations", 1)
					c.Add("int_cases", 1)
					if err != nil {
						c.Violation("int:encode-fails:"+valueClass(e), fmt.Sprintf("encoding %s fails: %v", e.Key(), err), c22Witness{Kind: "int", Events: doc})
						continue
					}
					want := 2 + refIntSize(v)
					if len(enc) != want {
						c.Violation(fmt.Sprintf("int:not-minimal:%s:want%d-got%d", e.K, want-2, len(enc)-2),
							fmt.Sprintf("integer %s via %s encodes in %d bytes (% x) but the shortest form has %d", v, e.K, len(enc)-2, enc[2:], want-2), c22Witness{Kind: "int", Events: doc, Want: want, Got: enc})
					}
					got, derr := codec.Decode(codec.CBE, enc, nil, true)
					if derr != nil || len(got) != 4 || nf.Num(got[2]) != "n:"+v.String() {
						c.Violation("int:value-changed:"+valueClass(e), fmt.Sprintf("integer %s via %s encodes as % x which decodes as [%s] err=%v", v, e.K, enc, ev.Join(got), derr), c22Witness{Kind: "int", Events: doc, Got: enc})
					}
					c.Distinct("nontrivial", v.String())
					if c.Index()%997 == 0 {
						c.Sample(fmt.Sprintf("integer %s via %s -> % x (%d bytes = minimal)", v, e.K, enc, len(enc)-2))
					}
				}
			}
		}
	}

	// --- floats: float32 patterns (all in thorough, strided in quick) + bfloat16 + neighbours, on one reused encoder per block
	stride := uint64(c.Pick(251, 1))
	const block = 1 << 22
	buf := &bytes.Buffer{}
	enc := cbe.NewEncoder(configuration.New())
	enc.PrepareToEncode(buf)
	enc.OnBeginDocument()
	enc.OnVersion(0)
	checkFloat := func(f float64) {
		buf.Reset()
		enc.OnFloat(f)
		b := buf.Bytes()
		c.Add("evaluations", 1)
		c.Add("float_cases", 1)
		want, fixed := refFloatSize(f)
		if fixed && len(b) != want || !fixed && len(b) > want {
			c.Violation(fmt.Sprintf("float:not-minimal:want%d-got%d", want, len(b)), fmt.Sprintf("float %v (bits %016x) encodes in %d bytes (% x), narrowest exact form has %d", f, math.Float64bits(f), len(b), b, want),
				c22Witness{Kind: "float", Bits: math.Float64bits(f), Want: want, Got: append([]byte{}, b...)})
		}
		if fixed {
			if g, ok := refDecodeFloat(b); !ok || math.Float64bits(g) != math.Float64bits(f) {
				c.Violation("float:value-changed", fmt.Sprintf("float %v (bits %016x) encodes as % x which does not decode (little-endian reference) to the same bits", f, math.Float64bits(f), b),
					c22Witness{Kind: "float", Bits: math.Float64bits(f), Got: append([]byte{}, b...)})
			}
		}
	}
	for base := uint64(0); base < 1<<32; base += block {
		if !c.Take() {
			continue
		}
		for p := base; p < base+block; p += stride {
			f := float64(math.Float32frombits(uint32(p)))
			checkFloat(f)
			if p%4099 == 0 && f == f && !math.IsInf(f, 0) {
				checkFloat(math.Nextafter(f, math.Inf(1)))
				checkFloat(math.Nextafter(f, math.Inf(-1)))
			}
		}
		c.Tick()
	}
	if c.Take() {
		for i := 0; i < 65536; i++ {
			f := float64(math.Float32frombits(uint32(i) << 16))
			checkFloat(f)
			if f == f && !math.IsInf(f, 0) {
				checkFloat(math.Nextafter(f, math.Inf(1)))
				checkFloat(math.Nextafter(f, math.Inf(-1)))
			}
			c.Distinct("nontrivial", fmt.Sprint("bf16:", i))
		}
		for _, f := range gen.FloatValues(64) {
			checkFloat(f)
		}
	}

	// --- arrays/strings: every kind × every length 0..40, whole and single final chunk
	for _, k := range gen.ArrayKinds() {
		switch k.AT {
		case events.ArrayTypeCustomText, events.ArrayTypeCustomBinary, events.ArrayTypeMedia, events.ArrayTypeReferenceRemote:
			continue // header carries extra fields; covered by the idempotence part only
		}
		for n := 0; n <= 40; n++ {
			if !c.Take() {
				continue
			}
			content := k.Content(n)
			cnt := n
			if k.Text {
				cnt = len(content)
			}
			hasShort := false
			hdr := 1
			switch k.AT {
			case events.ArrayTypeString:
				hasShort = true
			case events.ArrayTypeResourceID, events.ArrayTypeUint8, events.ArrayTypeBit:
			default:
				hasShort = true
				hdr = 2
			}
			want := hdr + len(content)
			if !(hasShort && cnt <= 15) {
				want = hdr + ulebLen(uint64(cnt)<<1) + len(content)
			}
			forms := [][]ev.E{}
			for _, w := range k.Whole(content, cnt) {
				forms = append(forms, []ev.E{w})
			}
			forms = append(forms, []ev.E{k.Begin(), ev.EChunk(uint64(cnt), false)})
			if len(content) > 0 {
				forms[len(forms)-1] = append(forms[len(forms)-1], ev.EData(content))
			}
			for _, f := range forms {
				doc := append(append([]ev.E{ev.EBD(), ev.EV(0)}, f...), ev.EED())
				encd, _, err := codec.Encode(codec.CBE, doc, nil, true)
				c.Add("evaluations", 1)
				c.Add("array_cases", 1)
				if err != nil {
					c.Violation("array:encode-fails:"+k.Name+":"+formName(f), fmt.Sprintf("encoding fails: %v for [%s]", err, clipS(ev.Join(doc))), c22Witness{Kind: "array", Events: doc})
					continue
				}
				if len(encd)-2 != want {
					short := "long"
					if cnt <= 15 {
						short = "<=15"
					}
					c.Violation(fmt.Sprintf("array:not-minimal:%s:%s:%s", k.Name, formName(f), short),
						fmt.Sprintf("%s array of %d elements via %s encodes in %d bytes (% x), expected %d (short form iff count<=15 and the type has one)", k.Name, cnt, formName(f), len(encd)-2, clipB(encd[2:]), want),
						c22Witness{Kind: "array", Events: doc, Want: want, Got: encd})
				}
				c.Distinct("nontrivial", fmt.Sprint(k.Name, n, formName(f)))
			}
		}
	}

	// --- idempotence over the C01 corpus: encode(decode(encode(x))) == encode(x)
	o := corpusOpts{structDepth: c.Pick(5, 6), floatStride: c.Pick(64, 8), latlong: 10, arrayFullMax: c.Pick(3, 5), padding: true}
	forEachCorpusDoc(c, o, func(doc []ev.E, cls string) {
		if _, err := codec.ValidateEvents(doc, nil); err != nil {
			return
		}
		e1, _, err := codec.Encode(codec.CBE, doc, nil, true)
		if err != nil {
			return // C01's subject
		}
		got, err := codec.Decode(codec.CBE, e1, nil, true)
		if err != nil {
			return // C01's subject
		}
		e2, _, err := codec.Encode(codec.CBE, got, nil, true)
		c.Add("evaluations", 1)
		c.Add("idempotence_cases", 1)
		if err != nil || !bytes.Equal(e1, e2) {
			c.Violation("idempotence:"+cls, fmt.Sprintf("re-encoding the decoded document differs: first % x, second % x (err=%v) for [%s]", clipB(e1), clipB(e2), err, clipS(ev.Join(doc))), c22Witness{Kind: "idem", Events: doc, Got: e1})
		}
	})
}

func init() {
	register(&fx.Check{
		ID:    "C22",
		Level: "exploration",
		Rule: "integers: every value within ±120/±300 of each width boundary (0, ±100, 2^8..2^72) in every event form, encoded length compared with an independent size table of the CBE integer forms and decoded back; " +
			"floats: every float32 bit pattern (every 251st in quick) and all bfloat16 patterns with ±1ulp float64 neighbours on a reused encoder, width compared with exact representability and bytes decoded by an independent little-endian reference; " +
			"arrays/strings: every kind × every length 0..40 whole and as one final chunk against the short-form rule; idempotence encode(decode(encode(x)))==encode(x) over the C01 corpus; distinct_nontrivial = distinct values/cases",
		Assumptions: []string{"only the encoded length is compared for integers (ties between equally short forms allowed)", "arrays delivered as several chunks are outside the minimality claim (a streaming encoder cannot know the total)",
			"zero/inf/NaN: only an upper bound of 3 bytes is claimed"},
		TrustedBase: []string{"size table written from the CBE specification", "encoding/binary little-endian reference decoder"},
		Guards:      map[string]int64{"int_cases": 5000, "float_cases": 1000000, "array_cases": 1000, "idempotence_cases": 10000},
		Run:         c22Run,
		Replay: func(raw json.RawMessage) string {
			var w c22Witness
			if err := json.Unmarshal(raw, &w); err != nil {
				return err.Error()
			}
			if w.Kind == "float" {
				doc := []ev.E{ev.EBD(), ev.EV(0), ev.EFloat(math.Float64frombits(w.Bits)), ev.EED()}
				enc, _, err := codec.Encode(codec.CBE, doc, nil, true)
				if err != nil {
					return err.Error()
				}
				want, fixed := refFloatSize(math.Float64frombits(w.Bits))
				if fixed && len(enc)-2 != want {
					return fmt.Sprintf("float encodes in %d bytes, want %d", len(enc)-2, want)
				}
				return ""
			}
			enc, _, err := codec.Encode(codec.CBE, w.Events, nil, true)
			if err != nil {
				return err.Error()
			}
			if w.Want > 0 && len(enc) != w.Want && len(enc)-2 != w.Want {
				return fmt.Sprintf("encodes in %d bytes (% x), want %d", len(enc), enc, w.Want)
			}
			return ""
		},
	})
}
