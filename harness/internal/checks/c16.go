package checks

import (
	"bytes"
	"crypto/sha256"
	"encoding/json"
	"fmt"
	"io"
	"strings"
	"time"

	"github.com/kstenerud/go-concise-encoding/ce"
	"github.com/kstenerud/go-concise-encoding/ce/events"
	"github.com/kstenerud/go-concise-encoding/configuration"
	"github.com/kstenerud/go-concise-encoding/rules"
	"verif/harness/internal/codec"
	"verif/harness/internal/env"
	"verif/harness/internal/ev"
	"verif/harness/internal/fx"
	"verif/harness/internal/statekey"
)

type c16Witness struct {
	Kind string   `json:"instance_kind"`
	Ops  []string `json:"operation_history"`
}

type c16Op struct {
	name string
	run  func(inst interface{}) string // observation: output + error presence
}

type c16Kind struct {
	name string
	mk   func() interface{}
	ops  []c16Op
}

func obs(out string, err error) string {
	if err != nil {
		return "ERROR"
	}
	return "ok:" + out
}

func c16Config() *configuration.Configuration {
	cfg := configuration.New()
	cfg.Rules.MaxDocumentSizeBytes = 48
	return cfg
}

type c16T1 struct {
	A int
	B string
}
type c16T2 struct {
	X []int32
	Y *c16T2
	Z c16T1
}
type c16BadSelf struct { // refers to itself before the field that cannot be handled
	Next *c16BadSelf
	C    chan int
}

// plainWriter implements io.Writer and nothing else.
type plainWriter struct{ b []byte }

func (w *plainWriter) Write(p []byte) (int, error) { w.b = append(w.b, p...); return len(p), nil }

type c16Unsupported struct {
	A int
	C chan int
}

func c16Docs(f codec.Format) map[string][]byte {
	doc := func(es ...ev.E) []byte {
		d, _, err := codec.Encode(f, append(append([]ev.E{ev.EBD(), ev.EV(0)}, es...), ev.EED()), nil, false)
		if err != nil {
			panic(err)
		}
		return d
	}
	pad := func(d []byte, n int) []byte {
		// grow a list document to exactly n bytes with one-byte integers / spaces
		for len(d) < n {
			if f == codec.CBE {
				d = append(d[:len(d)-1], 0x01, 0x9b)
			} else {
				d = append(d, ' ')
			}
		}
		return d
	}
	m := map[string][]byte{
		"A-list":        doc(ev.EList(), ev.EPInt(1), ev.EStr("two"), ev.EPInt(3), ev.EEnd()),
		"B-map":         doc(ev.EMap(), ev.EStr("a"), ev.EPInt(1), ev.EStr("b"), ev.EStr("a string longer than fifteen"), ev.EEnd()),
		"C-records":     doc(ev.ERecType("r"), ev.EStr("k"), ev.EEnd(), ev.EList(), ev.EMarker("m"), ev.ERec("r"), ev.EPInt(1), ev.EEnd(), ev.ERef("m"), ev.EEnd()),
		"D-chunked":     doc(ev.EList(), ev.EABegin(events.ArrayTypeString), ev.EChunk(2, true), ev.EData([]byte("é")), ev.EChunk(1, false), ev.EData([]byte("x")), ev.EArr(events.ArrayTypeUint16, 2, []byte{1, 2, 3, 4}), ev.EEnd()),
		"E-at-limit":    pad(doc(ev.EList(), ev.EPInt(1), ev.EEnd()), 48),
		"F-over-limit":  pad(doc(ev.EList(), ev.EPInt(1), ev.EEnd()), 49),
		"H-struct-doc":  doc(ev.EMap(), ev.EStr("a"), ev.EPInt(5), ev.EStr("b"), ev.EStr("s"), ev.EEnd()),
		"I-struct2-doc": doc(ev.EMap(), ev.EStr("x"), ev.EArr(events.ArrayTypeInt32, 2, []byte{1, 0, 0, 0, 2, 0, 0, 0}), ev.EStr("z"), ev.EMap(), ev.EStr("a"), ev.EPInt(1), ev.EEnd(), ev.EEnd()),
	}
	full := m["B-map"]
	m["G-truncated"] = full[:len(full)-4]
	if f == codec.CBE {
		m["J-dup-key"] = []byte{0x81, 0x00, 0x99, 0x81, 'a', 0x01, 0x81, 'a', 0x02, 0x9b}
		m["K-trailing-object"] = []byte{0x81, 0x00, 0x05, 0x06}
		m["L-mid-rune-chunk"] = []byte{0x81, 0x00, 0x90, 0x07, 'a', 'b', 0xc3, 0x02, 0xa9}
	} else {
		m["J-dup-key"] = []byte("c0\n{\"a\"=1 \"a\"=2}")
		m["K-trailing-object"] = []byte("c0\n5 6")
		m["L-mid-rune-chunk"] = []byte("c0\n\"ab\xc3\"")
	}
	return m
}

func sortedKeys(m map[string][]byte) []string {
	var ks []string
	for k := range m {
		ks = append(ks, k)
	}
	for i := range ks {
		for j := i + 1; j < len(ks); j++ {
			if ks[j] < ks[i] {
				ks[i], ks[j] = ks[j], ks[i]
			}
		}
	}
	return ks
}

func c16Kinds() []c16Kind {
	var out []c16Kind
	// decoders
	for _, f := range []codec.Format{codec.CBE, codec.CTE} {
		f := f
		docs := c16Docs(f)
		var ops []c16Op
		for _, name := range sortedKeys(docs) {
			name, d := name, docs[name]
			ops = append(ops, c16Op{"DecodeDocument(" + name + ")", func(inst interface{}) string {
				rec := &ev.Recorder{}
				rcv := rules.NewRules(rec, c16Config())
				err := inst.(ce.Decoder).DecodeDocument(d, rcv)
				return obs(ev.Join(rec.Events), err)
			}})
		}
		for _, name := range []string{"A-list", "K-trailing-object", "G-truncated"} {
			name, d := name, docs[name]
			ops = append(ops, c16Op{"Decode(data+EOF reader, " + name + ")", func(inst interface{}) string {
				rec := &ev.Recorder{}
				rcv := rules.NewRules(rec, c16Config())
				err := inst.(ce.Decoder).Decode(&env.Reader{Data: d, Script: env.Script{Default: env.Answer{Kind: env.DataEOF}}}, rcv)
				return obs(ev.Join(rec.Events), err)
			}})
		}
		mk := func() interface{} { return ce.NewCBEDecoder(c16Config()) }
		if f == codec.CTE {
			mk = func() interface{} { return ce.NewCTEDecoder(c16Config()) }
		}
		out = append(out, c16Kind{f.String() + ".Decoder", mk, ops})
	}
	// universal decoder: both formats on one instance
	{
		cb, ct := c16Docs(codec.CBE), c16Docs(codec.CTE)
		var ops []c16Op
		for _, name := range []string{"A-list", "B-map", "F-over-limit", "G-truncated", "J-dup-key"} {
			for _, src := range []struct {
				tag string
				d   []byte
			}{{"cbe:", cb[name]}, {"cte:", ct[name]}} {
				src, name := src, name
				ops = append(ops, c16Op{"DecodeDocument(" + src.tag + name + ")", func(inst interface{}) string {
					rec := &ev.Recorder{}
					err := inst.(ce.Decoder).DecodeDocument(src.d, rules.NewRules(rec, c16Config()))
					return obs(ev.Join(rec.Events), err)
				}})
			}
		}
		out = append(out, c16Kind{"universal.Decoder", func() interface{} { return ce.NewCEDecoder(c16Config()) }, ops})
	}
	// encoders
	evLists := map[string][]ev.E{
		"A-doc":            {ev.EBD(), ev.EV(0), ev.EList(), ev.EPInt(1), ev.EStr("s"), ev.EEnd(), ev.EED()},
		"B-doc-arrays":     {ev.EBD(), ev.EV(0), ev.EMap(), ev.EStr("k"), ev.EABegin(events.ArrayTypeUint16), ev.EChunk(1, true), ev.EData([]byte{1, 2}), ev.EChunk(1, false), ev.EData([]byte{3, 4}), ev.EStr("c"), ev.ECom(false, " c "), ev.EList(), ev.EEnd(), ev.EEnd(), ev.EED()},
		"C-abort-in-array": {ev.EBD(), ev.EV(0), ev.EList(), ev.EABegin(events.ArrayTypeString), ev.EChunk(5, true), ev.EData([]byte("ab"))},
		"D-abort-nested":   {ev.EBD(), ev.EV(0), ev.EMap(), ev.EStr("a"), ev.EList(), ev.EList(), ev.EPInt(1)},
		"E-abort-at-begin": {ev.EBD(), ev.EV(0), ev.EList(), ev.EABegin(events.ArrayTypeUint32)},
		"F-custom-text":    {ev.EBD(), ev.EV(0), ev.ECBegin(events.ArrayTypeCustomText, 3), ev.EChunk(2, false), ev.EData([]byte("ct")), ev.EED()},
		"G-chunked-text":   {ev.EBD(), ev.EV(0), ev.EList(), ev.ECBegin(events.ArrayTypeCustomText, 1), ev.EChunk(3, true), ev.EData([]byte("fir")), ev.EChunk(2, false), ev.EData([]byte("st")), ev.EABegin(events.ArrayTypeString), ev.EChunk(2, false), ev.EData([]byte("ab")), ev.EEnd(), ev.EED()},
	}
	for _, f := range []codec.Format{codec.CBE, codec.CTE} {
		f := f
		var ops []c16Op
		for _, name := range []string{"A-doc", "B-doc-arrays", "C-abort-in-array", "D-abort-nested", "E-abort-at-begin", "F-custom-text", "G-chunked-text"} {
			name, es := name, evLists[name]
			ops = append(ops, c16Op{"Encode(" + name + ")", func(inst interface{}) string {
				buf := &bytes.Buffer{}
				enc := inst.(ce.Encoder)
				enc.PrepareToEncode(buf)
				_, err := ev.TryDriveAll(enc, es)
				return obs(fmt.Sprintf("%x", buf.Bytes()), err)
			}})
		}
		ops = append(ops, c16Op{"Encode(A-doc, plain io.Writer)", func(inst interface{}) string {
			w := &plainWriter{}
			enc := inst.(ce.Encoder)
			enc.PrepareToEncode(w)
			_, err := ev.TryDriveAll(enc, evLists["A-doc"])
			return obs(fmt.Sprintf("%x", w.b), err)
		}})
		mk := func() interface{} { return ce.NewCBEEncoder(configuration.New()) }
		if f == codec.CTE {
			mk = func() interface{} { return ce.NewCTEEncoder(configuration.New()) }
		}
		out = append(out, c16Kind{f.String() + ".Encoder", mk, ops})
	}
	// marshalers
	self := &c16T2{X: []int32{1}}
	self.Y = self
	vals := []struct {
		name string
		v    interface{}
	}{
		{"T1", c16T1{5, "s"}}, {"T2", c16T2{X: []int32{1, 2}, Y: &c16T2{Z: c16T1{1, "in"}}}}, {"list", []interface{}{int64(1), "two", []byte{3}}},
		{"unsupported-chan", make(chan int)}, {"struct-with-chan", c16Unsupported{A: 1}}, {"nested-then-chan", map[string]interface{}{"a": []interface{}{int64(1), make(chan int)}}},
		{"self-referential-with-chan", c16BadSelf{}}, {"pointer-to-self-referential-with-chan", &c16BadSelf{}},
		{"cyclic", self}, {"bigint", []interface{}{bigI2("-18446744073709551615"), bigI2("5")}},
	}
	for _, f := range []codec.Format{codec.CBE, codec.CTE} {
		f := f
		var ops []c16Op
		for _, v := range vals {
			v := v
			ops = append(ops, c16Op{"Marshal(" + v.name + ")", func(inst interface{}) string {
				buf := &bytes.Buffer{}
				err := inst.(ce.Marshaler).Marshal(v.v, buf)
				return obs(fmt.Sprintf("%x", buf.Bytes()), err)
			}})
		}
		// a destination that is only an io.Writer (bytes.Buffer is also an io.StringWriter: the writers take different paths)
		ops = append(ops, c16Op{"Marshal(T1, plain io.Writer)", func(inst interface{}) string {
			w := &plainWriter{}
			err := inst.(ce.Marshaler).Marshal(c16T1{7, "plain"}, w)
			return obs(fmt.Sprintf("%x", w.b), err)
		}}, c16Op{"Marshal(list, plain io.Writer)", func(inst interface{}) string {
			w := &plainWriter{}
			err := inst.(ce.Marshaler).Marshal([]interface{}{int64(1), "two", []byte{3}}, w)
			return obs(fmt.Sprintf("%x", w.b), err)
		}})
		ops = append(ops, c16Op{"Marshal(T1, failing writer)", func(inst interface{}) string {
			w := &env.Writer{Script: env.Script{At: map[int]env.Answer{1: {Kind: env.Fail, Sticky: true}}}}
			err := inst.(ce.Marshaler).Marshal(c16T1{1, "x"}, w)
			return obs(fmt.Sprintf("%x", w.Buf), err)
		}})
		mk := func() interface{} {
			cfg := configuration.New()
			cfg.Iterator.RecursionSupport = true
			return ce.NewCBEMarshaler(cfg)
		}
		if f == codec.CTE {
			mk = func() interface{} {
				cfg := configuration.New()
				cfg.Iterator.RecursionSupport = true
				return ce.NewCTEMarshaler(cfg)
			}
		}
		out = append(out, c16Kind{f.String() + ".Marshaler", mk, ops})
	}
	// unmarshalers
	for _, f := range []codec.Format{codec.CBE, codec.CTE} {
		f := f
		docs := c16Docs(f)
		type ud struct {
			doc string
			tpl interface{}
			tn  string
		}
		var ops []c16Op
		for _, u := range []ud{{"A-list", nil, "nil"}, {"A-list", []interface{}{}, "[]interface{}"}, {"H-struct-doc", c16T1{}, "T1"}, {"I-struct2-doc", c16T2{}, "T2"}, {"H-struct-doc", c16Unsupported{}, "struct-with-chan"},
			{"H-struct-doc", c16BadSelf{}, "self-referential-with-chan"}, {"H-struct-doc", &c16BadSelf{}, "pointer-to-self-referential-with-chan"},
			{"A-list", make(chan int), "chan"}, {"G-truncated", nil, "nil"}, {"J-dup-key", nil, "nil"}, {"F-over-limit", nil, "nil"}, {"E-at-limit", nil, "nil"}, {"C-records", nil, "nil"}, {"L-mid-rune-chunk", nil, "nil"}, {"D-chunked", nil, "nil"}} {
			u := u
			d := docs[u.doc]
			ops = append(ops, c16Op{"Unmarshal(" + u.doc + " into " + u.tn + ")", func(inst interface{}) string {
				v, err := inst.(ce.Unmarshaler).UnmarshalFromDocument(d, u.tpl)
				if err != nil {
					return "ERROR"
				}
				return obs(valueKey(v), nil)
			}})
		}
		ops = append(ops, c16Op{"Unmarshal(data+EOF reader, K-trailing-object)", func(inst interface{}) string {
			v, err := inst.(ce.Unmarshaler).Unmarshal(&env.Reader{Data: docs["K-trailing-object"], Script: env.Script{Default: env.Answer{Kind: env.DataEOF}}}, nil)
			if err != nil {
				return "ERROR"
			}
			return obs(valueKey(v), nil)
		}})
		mk := func() interface{} { return ce.NewCBEUnmarshaler(c16Config()) }
		if f == codec.CTE {
			mk = func() interface{} { return ce.NewCTEUnmarshaler(c16Config()) }
		}
		out = append(out, c16Kind{f.String() + ".Unmarshaler", mk, ops})
	}
	// rules validator with Reset between documents
	{
		lists := map[string][]ev.E{
			"valid":            {ev.EBD(), ev.EV(0), ev.ERecType("r"), ev.EStr("k"), ev.EEnd(), ev.EList(), ev.EMarker("m"), ev.ERec("r"), ev.EPInt(1), ev.EEnd(), ev.ERef("m"), ev.EEnd(), ev.EED()},
			"valid-chunked":    {ev.EBD(), ev.EV(0), ev.EMap(), ev.EABegin(events.ArrayTypeString), ev.EChunk(2, true), ev.EData([]byte("é")), ev.EChunk(1, false), ev.EData([]byte("x")), ev.EPInt(1), ev.EEnd(), ev.EED()},
			"invalid-dup-key":  {ev.EBD(), ev.EV(0), ev.EMap(), ev.EStr("a"), ev.EPInt(1), ev.EStr("a")},
			"truncated-in-map": {ev.EBD(), ev.EV(0), ev.EList(), ev.EMap(), ev.EStr("a")},
			"mid-rune-chunk":   {ev.EBD(), ev.EV(0), ev.EABegin(events.ArrayTypeString), ev.EChunk(3, true), ev.EData([]byte{'a', 'b', 0xc3})},
			"undeclared-rec":   {ev.EBD(), ev.EV(0), ev.ERec("r"), ev.EPInt(1), ev.EEnd(), ev.EED()},
			"unresolved-ref":   {ev.EBD(), ev.EV(0), ev.EList(), ev.ERef("m"), ev.EEnd(), ev.EED()},
		}
		var ops []c16Op
		for _, name := range []string{"valid", "valid-chunked", "invalid-dup-key", "truncated-in-map", "mid-rune-chunk", "undeclared-rec", "unresolved-ref"} {
			name, es := name, lists[name]
			ops = append(ops, c16Op{"Reset+Events(" + name + ")", func(inst interface{}) string {
				r := inst.(*rulesInst)
				r.rules.Reset()
				r.rec.Reset()
				idx, err := ev.TryDriveAll(r.rules, es)
				return fmt.Sprintf("rejected-at=%d forwarded=%s", idx, obs(ev.Join(r.rec.Events), err))
			}})
		}
		out = append(out, c16Kind{"rules.RulesEventReceiver", func() interface{} {
			rec := &ev.Recorder{}
			return &rulesInst{rules.NewRules(rec, configuration.New()), rec}
		}, ops})
	}
	return out
}

type rulesInst struct {
	rules *rules.RulesEventReceiver
	rec   *ev.Recorder
}

func bigI2(s string) interface{} {
	v, _ := newBig(s)
	return v
}

// runWithDeadline runs f in a goroutine; a call that does not return within the deadline is reported as a hang
// (normal calls take microseconds; the deadline is 4-5 orders of magnitude above that).
func runWithDeadline(f func() string) (res string, hung bool) {
	ch := make(chan string, 1)
	go func() {
		defer func() {
			if x := recover(); x != nil {
				ch <- fmt.Sprintf("ESCAPED PANIC: %v", x)
			}
		}()
		ch <- f()
	}()
	select {
	case r := <-ch:
		return r, false
	case <-time.After(20 * time.Second):
		return "", true
	}
}

func c16Run(c *fx.Ctx) {
	depth := c.Pick(3, 4)
	for _, k := range c16Kinds() {
		k := k
		// fresh-instance observation of every op
		fresh := make([]string, len(k.ops))
		for i, op := range k.ops {
			op := op
			fresh[i], _ = runWithDeadline(func() string { return op.run(k.mk()) })
		}
		type st struct{ path []int }
		frontier := []st{{}}
		seen := map[[16]byte]bool{}
		for d := 0; d < depth && len(frontier) > 0; d++ {
			var next []st
			for _, cur := range frontier {
				if d == 1 && !c.Take() {
					continue
				}
				for oi, op := range k.ops {
					oi, op := oi, op
					var key string
					got, hung := runWithDeadline(func() string {
						inst := k.mk()
						for _, pi := range cur.path {
							k.ops[pi].run(inst)
						}
						r := op.run(inst)
						key = statekey.Of(inst, statekey.Options{FollowPointers: true, Skip: map[string]bool{"config": true}})
						return r
					})
					count := d >= 1 || c.Shard == 0
					if count {
						c.Add("transitions", 1)
						c.Add("evaluations", 1)
						c.Add("traces_validated_against_impl", 1)
					}
					names := func() []string {
						var ns []string
						for _, pi := range cur.path {
							ns = append(ns, k.ops[pi].name)
						}
						return append(ns, op.name)
					}
					w := c16Witness{Kind: k.name, Ops: names()}
					if hung {
						c.Violation(fmt.Sprintf("%s:hangs:%s", k.name, op.name), fmt.Sprintf("%s: after %v the call %s does not return", k.name, names()[:len(names())-1], op.name), w)
						continue
					}
					if got != fresh[oi] {
						prev := "fresh"
						if len(cur.path) > 0 {
							prev = k.ops[cur.path[len(cur.path)-1]].name
						}
						c.Violation(fmt.Sprintf("%s:differs-from-fresh:%s:after:%s", k.name, op.name, prev),
							fmt.Sprintf("%s: after %v, %s gives %s but a fresh instance gives %s", k.name, names()[:len(names())-1], op.name, clipS(got), clipS(fresh[oi])), w)
						continue
					}
					if strings.HasPrefix(got, "ESCAPED PANIC") {
						continue // same as fresh: C07's subject
					}
					h := sha256.Sum256([]byte(key))
					var k16 [16]byte
					copy(k16[:], h[:16])
					if seen[k16] {
						continue
					}
					seen[k16] = true
					if count {
						c.Add("states", 1)
						c.Distinct("states", k.name+string(k16[:]))
					}
					if len(cur.path) == 2 {
						c.Sample(map[string]interface{}{"kind": k.name, "history": names(), "observation": clipS(got)})
					}
					np := append(append([]int{}, cur.path...), oi)
					next = append(next, st{np})
				}
			}
			frontier = next
		}
	}
}

var _ = io.EOF

func init() {
	register(&fx.Check{
		ID:           "C16",
		Level:        "model_checking",
		StallSeconds: 90,
		Rule: "explicit-state search over operation histories on ONE instance, for 11 instance kinds (CBE/CTE/universal decoders, CBE/CTE encoders, marshalers, unmarshalers, the rules validator with Reset): every sequence of up to 3 (quick) / 4 (thorough) operations from alphabets of 7-16 operations each " +
			"(valid documents of different shapes, syntactically invalid, rules-invalid, truncated, exactly at and one byte over the size limit, a reader that returns data with EOF, event streams aborted inside an array / a container, values of a new type, a recursive type, unsupported types alone and nested, a failing writer); " +
			"states are merged on the reflective state key of the instance (histories that leave identical private state are expanded once); oracle: the last operation's output/events/value/error presence equals what a FRESH instance gives for that operation alone; a call that does not return within 20 s is a hang; distinct_nontrivial = distinct instance states reached",
		Assumptions: []string{"128-bit truncated SHA-256 of the reflective state key is collision-free on the explored set", "the state key is over-fine (it never merges instances with different private state)", "hang detection uses a 20 s deadline per call (normal calls take microseconds)"},
		TrustedBase: []string{"reflect-based state canonicaliser", "a fresh instance of the same kind as reference"},
		Guards:      map[string]int64{"states": 300, "transitions": 3000},
		Run:         c16Run,
		Replay: func(raw json.RawMessage) string {
			var w c16Witness
			if err := json.Unmarshal(raw, &w); err != nil {
				return err.Error()
			}
			for _, k := range c16Kinds() {
				if k.name != w.Kind {
					continue
				}
				inst := k.mk()
				var last, fresh string
				for _, name := range w.Ops {
					for _, op := range k.ops {
						if op.name == name {
							op := op
							var hung bool
							last, hung = runWithDeadline(func() string { return op.run(inst) })
							if hung {
								return "call " + name + " does not return"
							}
							fresh, _ = runWithDeadline(func() string { return op.run(k.mk()) })
						}
					}
				}
				if last != fresh {
					return fmt.Sprintf("last operation gives %s, fresh instance gives %s", clipS(last), clipS(fresh))
				}
				return ""
			}
			return "unknown kind"
		},
	})
}
