package checks

import "math/big"

func newBig(s string) (*big.Int, bool) { return new(big.Int).SetString(s, 10) }
