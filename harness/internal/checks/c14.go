package checks

import (
	"bytes"
	"encoding/json"
	"fmt"
	"strings"

	"github.com/kstenerud/go-concise-encoding/cbe"
	"github.com/kstenerud/go-concise-encoding/ce/events"
	"github.com/kstenerud/go-concise-encoding/configuration"
	"github.com/kstenerud/go-concise-encoding/cte"
	"github.com/kstenerud/go-concise-encoding/rules"
	"verif/harness/internal/codec"
	"verif/harness/internal/ev"
	"verif/harness/internal/fx"
	"verif/harness/internal/gen"
)

type usage struct {
	depthMin, depthMax int // without / with record types counted as containers
	arrayBytes         int
	identLen           int
	markers            int
	valueEvents        int
	allEvents          int
}

func measure(doc []ev.E) usage {
	var u usage
	depth := 0
	depthRT := 0
	inRT := false
	arr := 0
	inArr := false
	ident := func(b []byte) {
		if len(b) > u.identLen {
			u.identLen = len(b)
		}
	}
	arrDone := func(n int) {
		if n > u.arrayBytes {
			u.arrayBytes = n
		}
	}
	for _, e := range doc {
		switch e.K {
		case ev.BD, ev.ED, ev.Version:
			continue
		}
		u.allEvents++
		switch e.K {
		case ev.List, ev.Map, ev.Edge, ev.Node, ev.Record:
			depth++
			depthRT++
			if e.K == ev.Record {
				ident(e.Data)
			}
			u.valueEvents++
		case ev.RecordType:
			inRT = true
			depthRT++
			ident(e.Data)
		case ev.End:
			if inRT {
				inRT = false
				depthRT--
			} else {
				depth--
				depthRT--
			}
		case ev.Marker:
			u.markers++
			ident(e.Data)
		case ev.Ref:
			ident(e.Data)
			u.valueEvents++
		case ev.Array, ev.StrArray, ev.Media, ev.CustomBin, ev.CustomText:
			arrDone(len(e.Data))
			u.valueEvents++
		case ev.ArrayBegin, ev.MediaBegin, ev.CustomBegin:
			inArr, arr = true, 0
			u.valueEvents++
		case ev.Data:
			if inArr {
				arr += len(e.Data)
				arrDone(arr)
			}
		case ev.Chunk, ev.Padding, ev.Comment:
		default:
			u.valueEvents++
		}
		if depth > u.depthMin {
			u.depthMin = depth
		}
		if depthRT > u.depthMax {
			u.depthMax = depthRT
		}
	}
	return u
}

type c14Witness struct {
	Path   string `json:"path"`
	Limit  string `json:"limit"`
	Value  uint64 `json:"value"`
	Usage  int    `json:"usage"`
	Events []ev.E `json:"events"`
	Doc    []byte `json:"document,omitempty"`
}

func limitCfg(name string, v uint64) *configuration.Configuration {
	cfg := configuration.New()
	applyRuleLimits(cfg, map[string]uint64{name: v})
	return cfg
}

// verdict through one path: "rules" (events direct), "cbe", "cte" (decoder + rules)
func limitVerdict(path string, doc []ev.E, enc []byte, cfg *configuration.Configuration) (rejected bool, err error) {
	switch path {
	case "rules":
		r := rules.NewRules(nil, cfg)
		_, err = ev.TryDriveAll(r, doc)
	case "cbe":
		_, err = codec.Decode(codec.CBE, enc, cfg, true)
	case "cte":
		_, err = codec.Decode(codec.CTE, enc, cfg, true)
	}
	return err != nil, err
}

func c14Docs(c *fx.Ctx, visit func(doc []ev.E, family string)) {
	hdr := func(es ...ev.E) []ev.E { return append(append([]ev.E{ev.EBD(), ev.EV(0)}, es...), ev.EED()) }
	rep := func(n int, open []ev.E, inner []ev.E, close []ev.E) []ev.E {
		var out []ev.E
		for i := 0; i < n; i++ {
			out = append(out, open...)
		}
		out = append(out, inner...)
		for i := 0; i < n; i++ {
			out = append(out, close...)
		}
		return out
	}
	for n := 1; n <= 4; n++ {
		visit(hdr(rep(n, []ev.E{ev.EList()}, []ev.E{ev.EPInt(1)}, []ev.E{ev.EEnd()})...), "depth-list")
		visit(hdr(rep(n, []ev.E{ev.EMap(), ev.EStr("k")}, []ev.E{ev.EPInt(1)}, []ev.E{ev.EEnd()})...), "depth-map")
		visit(hdr(rep(n, []ev.E{ev.ENode()}, []ev.E{ev.EPInt(1)}, []ev.E{ev.EEnd()})...), "depth-node")
		visit(hdr(rep(n, []ev.E{ev.EEdge()}, []ev.E{ev.EPInt(1)}, []ev.E{ev.ENull(), ev.EPInt(2), ev.EEnd()})...), "depth-edge")
		visit(hdr(rep(n, []ev.E{ev.EList(), ev.EMarker("m" + fmt.Sprint(n))}, []ev.E{ev.EPInt(1)}, []ev.E{ev.EEnd()})...), "depth-list-marked")
		rec := append([]ev.E{ev.ERecType("r"), ev.EStr("f"), ev.EEnd()}, rep(n, []ev.E{ev.ERec("r")}, []ev.E{ev.EPInt(1)}, []ev.E{ev.EEnd()})...)
		visit(hdr(rec...), "depth-record")
	}
	for _, k := range gen.ArrayKinds() {
		for _, n := range []int{0, 1, 5, 16, 17} {
			content := k.Content(n)
			cnt := n
			if k.Text {
				cnt = len(content)
			}
			for _, w := range k.Whole(content, cnt) {
				visit(hdr(w), "array-"+k.Name)
			}
			one := []ev.E{k.Begin(), ev.EChunk(uint64(cnt), false)}
			if len(content) > 0 {
				one = append(one, ev.EData(content))
			}
			visit(hdr(one...), "array-"+k.Name)
			if k.ElemBytes > 0 && cnt >= 2 && !k.Text {
				h := cnt / 2
				hb := h * k.ElemBytes
				visit(hdr(k.Begin(), ev.EChunk(uint64(h), true), ev.EData(content[:hb]), ev.EChunk(uint64(cnt-h), false), ev.EData(content[hb:])), "array-"+k.Name)
			}
			visit(hdr(ev.EList(), ev.EStr("ab"), one[0], one[1]), "skip")
		}
	}
	for _, id := range []string{"a", "aaa", "aaaaaaa", "é", "aé", "éñü", "日本語x", strings.Repeat("a", 127), strings.Repeat("é", 64)} {
		visit(hdr(ev.EList(), ev.EMarker(id), ev.EPInt(1), ev.EEnd()), "ident-marker")
		visit(hdr(ev.EList(), ev.EMarker(id), ev.EPInt(1), ev.ERef(id), ev.EEnd()), "ident-ref")
		visit(hdr(ev.EList(), ev.ERef(id), ev.EMarker(id), ev.EPInt(1), ev.EEnd()), "ident-forward-ref")
		visit(hdr(ev.ERecType(id), ev.EStr("f"), ev.EEnd(), ev.ERec(id), ev.EPInt(1), ev.EEnd()), "ident-record")
		visit(hdr(ev.ERecType(id), ev.EEnd(), ev.EPInt(1)), "ident-rectype")
	}
	for k := 0; k <= 4; k++ {
		var es []ev.E
		es = append(es, ev.EList())
		for i := 0; i < k; i++ {
			es = append(es, ev.EMarker(fmt.Sprintf("m%d", i)), ev.EPInt(uint64(i)))
		}
		es = append(es, ev.EEnd())
		visit(hdr(es...), "markers")
		var ms []ev.E
		ms = append(ms, ev.EMap())
		for i := 0; i < k; i++ {
			ms = append(ms, ev.EMarker(fmt.Sprintf("k%d", i)), ev.EStr(fmt.Sprintf("s%d", i)), ev.EMarker(fmt.Sprintf("v%d", i)), ev.EList(), ev.EEnd())
		}
		ms = append(ms, ev.EEnd())
		visit(hdr(ms...), "markers-map")
		// nested: a marked container inside a marked container ... k levels, innermost a marked scalar; and nested + siblings
		if k >= 1 {
			var ns []ev.E
			for i := 0; i < k-1; i++ {
				ns = append(ns, ev.EMarker(fmt.Sprintf("n%d", i)), ev.EList())
			}
			ns = append(ns, ev.EMarker("leaf"), ev.EPInt(1))
			for i := 0; i < k-1; i++ {
				ns = append(ns, ev.EEnd())
			}
			visit(hdr(ns...), "markers-nested")
			var mx []ev.E
			mx = append(mx, ev.EMarker("outer"), ev.EMap())
			for i := 0; i < k-1; i++ {
				mx = append(mx, ev.EStr(fmt.Sprintf("k%d", i)), ev.EMarker(fmt.Sprintf("in%d", i)), ev.EList(), ev.ERef("outer"), ev.EEnd())
			}
			mx = append(mx, ev.EEnd())
			visit(hdr(mx...), "markers-nested-siblings")
		}
	}
	for n := 0; n <= 5; n++ {
		var es []ev.E
		es = append(es, ev.EList())
		for i := 0; i < n; i++ {
			es = append(es, ev.EPInt(uint64(i)))
		}
		es = append(es, ev.EEnd())
		visit(hdr(es...), "objects")
	}
	var nodes int64
	gen.DocSweep(gen.StructAlphabet(), c.Pick(5, 6), 0, func() bool { return true }, func(doc []ev.E) { visit(doc, "struct") }, &nodes)
}

func c14Run(c *fx.Ctx) {
	c14Docs(c, func(doc []ev.E, family string) {
		if family == "skip" {
			return
		}
		if !c.Take() {
			return
		}
		if _, err := codec.ValidateEvents(doc, nil); err != nil {
			return
		}
		u := measure(doc)
		encs := map[string][]byte{}
		for _, p := range []string{"cbe", "cte"} {
			f := codec.CBE
			if p == "cte" {
				f = codec.CTE
			}
			if b, _, err := codec.Encode(f, doc, nil, true); err == nil {
				if _, err := codec.Decode(f, b, nil, true); err == nil {
					encs[p] = b
				}
			}
		}
		type dim struct {
			name       string
			uMin, uMax int
			minL       int
		}
		dims := []dim{
			{"MaxContainerDepth", u.depthMin, u.depthMax, 0},
			{"MaxArraySizeBytes", u.arrayBytes, u.arrayBytes, 1},
			{"MaxIdentifierLength", u.identLen, u.identLen, 0},
			{"MaxMarkerCount", u.markers, u.markers, 0},
		}
		for _, d := range dims {
			for L := d.uMin - 1; L <= d.uMax+1; L++ {
				if L < d.minL {
					continue
				}
				for _, p := range []string{"rules", "cbe", "cte"} {
					enc := encs[p]
					if p != "rules" && enc == nil {
						continue
					}
					cfg := limitCfg(d.name, uint64(L))
					rej, err := limitVerdict(p, doc, enc, cfg)
					c.Add("evaluations", 1)
					c.Add("limit_cases", 1)
					c.Distinct("nontrivial", fmt.Sprint(d.name, L, p, ev.Join(doc)))
					w := c14Witness{Path: p, Limit: d.name, Value: uint64(L), Usage: d.uMin, Events: doc, Doc: enc}
					if L < d.uMin && !rej {
						c.Add("must_reject_cases", 1)
						c.Violation(fmt.Sprintf("limit-not-enforced:%s:%s:%s", d.name, p, family), fmt.Sprintf("%s=%d but the document uses %d and is accepted via %s: [%s]", d.name, L, d.uMin, p, clipS(ev.Join(doc))), w)
					} else if L < d.uMin {
						c.Add("must_reject_cases", 1)
					}
					if L >= d.uMax && rej {
						c.Violation(fmt.Sprintf("rejected-within-limit:%s:%s:%s", d.name, p, family), fmt.Sprintf("%s=%d, the document uses %d, yet it is rejected via %s (%v): [%s]", d.name, L, d.uMax, p, err, clipS(ev.Join(doc))), w)
					}
				}
			}
		}
		// object count: definition-free oracle
		thr := map[string]int{}
		for _, p := range []string{"rules", "cbe", "cte"} {
			enc := encs[p]
			if p != "rules" && enc == nil {
				continue
			}
			T := -1
			mono := true
			for L := 0; L <= u.allEvents+1; L++ {
				rej, _ := limitVerdict(p, doc, enc, limitCfg("MaxObjectCount", uint64(L)))
				c.Add("evaluations", 1)
				if !rej && T < 0 {
					T = L
				}
				if rej && T >= 0 {
					mono = false
				}
			}
			w := c14Witness{Path: p, Limit: "MaxObjectCount", Events: doc, Doc: enc, Usage: u.valueEvents}
			if !mono {
				c.Violation("object-count:not-monotone:"+p+":"+family, fmt.Sprintf("acceptance is not monotone in MaxObjectCount via %s for [%s]", p, clipS(ev.Join(doc))), w)
			}
			if T < 0 {
				c.Violation("object-count:never-accepted:"+p+":"+family, fmt.Sprintf("rejected for every MaxObjectCount up to #events+1=%d via %s: [%s]", u.allEvents+1, p, clipS(ev.Join(doc))), w)
				continue
			}
			if T < u.valueEvents || T > u.allEvents {
				c.Violation("object-count:threshold-out-of-range:"+p+":"+family, fmt.Sprintf("threshold %d outside [#values=%d, #events=%d] via %s: [%s]", T, u.valueEvents, u.allEvents, p, clipS(ev.Join(doc))), w)
			}
			thr[p] = T
		}
		if t0, ok := thr["rules"]; ok {
			for _, p := range []string{"cbe", "cte"} {
				if t, ok := thr[p]; ok && t != t0 && !hasChunks(doc) {
					c.Violation("object-count:path-dependent:"+p+":"+family, fmt.Sprintf("object-count threshold %d via rules but %d via %s for [%s]", t0, t, p, clipS(ev.Join(doc))), c14Witness{Path: p, Limit: "MaxObjectCount", Events: doc, Doc: encs[p]})
				}
			}
		}
		// document size through every reader entry point
		for p, enc := range encs {
			for _, L := range []int{len(enc) - 1, len(enc), len(enc) + 1} {
				cfg := limitCfg("MaxDocumentSizeBytes", uint64(L))
				for _, ep := range []string{"DecodeDocument", "Decode(reader)"} {
					var err error
					rec := &ev.Recorder{}
					rcv := rules.NewRules(rec, cfg)
					func() {
						defer func() {
							if x := recover(); x != nil {
								err = fmt.Errorf("escaped panic %v", x)
							}
						}()
						if p == "cbe" {
							if ep == "DecodeDocument" {
								err = cbe.NewDecoder(cfg).DecodeDocument(enc, rcv)
							} else {
								err = cbe.NewDecoder(cfg).Decode(bytes.NewReader(enc), rcv)
							}
						} else {
							if ep == "DecodeDocument" {
								err = cte.NewDecoder(cfg).DecodeDocument(enc, rcv)
							} else {
								err = cte.NewDecoder(cfg).Decode(bytes.NewReader(enc), rcv)
							}
						}
					}()
					c.Add("evaluations", 1)
					c.Add("size_cases", 1)
					w := c14Witness{Path: p + ":" + ep, Limit: "MaxDocumentSizeBytes", Value: uint64(L), Usage: len(enc), Events: doc, Doc: enc}
					if L < len(enc) && err == nil {
						c.Violation(fmt.Sprintf("limit-not-enforced:MaxDocumentSizeBytes:%s:%s", p, ep), fmt.Sprintf("MaxDocumentSizeBytes=%d but the %d-byte %s document is accepted via %s: %s", L, len(enc), p, ep, showDoc(codecOf(p), enc)), w)
					}
					if L >= len(enc) && err != nil {
						c.Violation(fmt.Sprintf("rejected-within-limit:MaxDocumentSizeBytes:%s:%s", p, ep), fmt.Sprintf("MaxDocumentSizeBytes=%d, document has %d bytes, rejected via %s (%v)", L, len(enc), ep, err), w)
					}
				}
			}
		}
		if c.Index()%97 == 0 {
			c.Sample(fmt.Sprintf("%s usage=%+v", ev.Join(doc), u))
		}
	})
}

func hasChunks(doc []ev.E) bool {
	for _, e := range doc {
		if e.K == ev.Chunk {
			return true
		}
	}
	return false
}

func codecOf(p string) codec.Format {
	if p == "cte" {
		return codec.CTE
	}
	return codec.CBE
}

var _ = events.ArrayTypeBit

func init() {
	register(&fx.Check{
		ID:    "C14",
		Level: "exploration",
		Rule: "documents: families moving one usage dimension at a time (nesting chains of each container kind, arrays of each kind whole/chunked at 5 sizes, identifiers in every identifier-carrying event, 0..4 markers, object runs) plus every complete document of the structure sweep to depth 5/6; " +
			"for each document and each dimension (container depth, array size, identifier length, marker count) every limit L in {usage-1, usage, usage+1} with all other limits default, through rules-direct, CBE decoder+rules and CTE decoder+rules: rejected iff L < usage; " +
			"object count: threshold existence/monotonicity over every L in [0,#events+1], #values<=T<=#events, same T through all paths; document size {len-1,len,len+1} through DecodeDocument and Decode(reader) of both decoders; distinct_nontrivial = distinct (limit, value, path, document) cases",
		Assumptions: []string{"whether a record type counts as a container level is a don't-care (limits between the two readings are not judged)", "MaxArraySizeBytes=0 means unlimited and is not swept", "object count has no definition in the documentation: only definition-free consequences are checked"},
		TrustedBase: []string{"usage model in c14.go (measure)"},
		Guards:      map[string]int64{"limit_cases": 20000, "must_reject_cases": 2000, "size_cases": 5000},
		Run:         c14Run,
		Replay: func(raw json.RawMessage) string {
			var w c14Witness
			if err := json.Unmarshal(raw, &w); err != nil {
				return err.Error()
			}
			p := strings.SplitN(w.Path, ":", 2)[0]
			if w.Limit == "MaxDocumentSizeBytes" || w.Limit == "MaxObjectCount" {
				return "replay of size/object-count cases: re-run the check"
			}
			rej, _ := limitVerdict(p, w.Events, w.Doc, limitCfg(w.Limit, w.Value))
			if int(w.Value) < w.Usage && !rej {
				return fmt.Sprintf("%s=%d not enforced (usage %d) via %s", w.Limit, w.Value, w.Usage, p)
			}
			if int(w.Value) >= w.Usage && rej {
				return fmt.Sprintf("rejected within %s=%d (usage %d) via %s", w.Limit, w.Value, w.Usage, p)
			}
			return ""
		},
	})
}
