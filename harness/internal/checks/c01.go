package checks

import (
	"verif/harness/internal/codec"
	"verif/harness/internal/ev"
	"verif/harness/internal/fx"
)

func init() {
	register(&fx.Check{
		ID:    "C01",
		Level: "exploration",
		Rule: "three exhaustive sweeps, each document run as events -> rules -> CBE encoder -> bytes -> CBE decoder -> rules -> recorder and compared by normal form (numbers by exact value, NaN by kind, times field by field, arrays by type+bytes with chunking erased; comments dropped from the input side only): " +
			"(1) every complete document the real validator accepts among all event sequences of length <= 6/7 over a 21-event structural alphabet, plus padding inserted at every position; " +
			"(2) scalar alphabet (integers around every width boundary in every event form, all 65536 bfloat16 patterns (every 8th in quick), float32/64 boundary patterns, decimal/big floats, UIDs, times × every time-zone form incl. a lat/long window) × 11 contexts; " +
			"(3) every array kind × lengths 0..20,31,32,33,40 × whole/stringlike/one chunk/every chunking×data split (<=6 elements) × 4 contexts; distinct_nontrivial = distinct input normal forms",
		Assumptions: []string{"compensating encoder/decoder errors are invisible to a round trip (C22/C26 add independent oracles)", "zero-value times excluded (encoders write them as null by design)"},
		TrustedBase: []string{"harness normal form internal/nf", "real rules validator as the generator of valid documents"},
		Guards:      map[string]int64{"structure_docs": 1000, "value_docs": 10000, "array_docs": 2000},
		Run: func(c *fx.Ctx) {
			o := corpusOpts{refMaxLen: c.Pick(7, 9), structDepth: c.Pick(6, 7), floatStride: c.Pick(8, 1), latlong: c.Pick(20, 100), arrayFullMax: c.Pick(5, 6), padding: true, contextsAll: c.Thorough()}
			forEachCorpusDoc(c, o, func(doc []ev.E, cls string) {
				_, _, ok := roundTrip(c, codec.CBE, doc, cls)
				if ok {
					c.Distinct("nontrivial", ev.Join(doc))
					if c.Index()%211 == 0 {
						c.Sample(ev.Join(doc))
					}
				}
			})
		},
		Replay: replayRoundTrip,
	})
}
