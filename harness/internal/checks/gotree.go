package checks

import (
	"bytes"
	"encoding/binary"
	"fmt"
	"math"
	"math/big"
	"net/url"
	"reflect"
	"strings"
	"time"

	"github.com/cockroachdb/apd/v2"
	compact_float "github.com/kstenerud/go-compact-float"
	compact_time "github.com/kstenerud/go-compact-time"
	"github.com/kstenerud/go-concise-encoding/ce/events"
	"github.com/kstenerud/go-concise-encoding/types"
	"verif/harness/internal/ev"
)

// ---------- reference value tree built from an event stream (independent of the repository's builders) ----------

type tkind int

const (
	tNull tkind = iota
	tBool
	tNum // exact rational, or special
	tString
	tRID
	tRemote
	tUID
	tTime
	tArray // typed array: at, n, data
	tMedia
	tCustom
	tList
	tMap // children: k0 v0 k1 v1 ...
	tNode
	tEdge
	tUnresolved // a reference whose marker is not in the decoded part: only an empty (nil/zero) placeholder may stand for it
)

type tnode struct {
	kind     tkind
	b        bool
	num      *big.Rat
	special  string // "nan", "snan", "+inf", "-inf", "-0"
	data     []byte
	at       events.ArrayType
	n        uint64
	t        compact_time.Time
	mt       string
	ct       uint64
	children []*tnode
	alt      *tnode // tUnresolved: the node the reference may alternatively have been resolved to
}

func (n *tnode) String() string { return n.str(0) }

// str prints to a bounded depth (trees built from markers and references may be cyclic).
func (n *tnode) str(depth int) string {
	if depth > 6 {
		return "…"
	}
	switch n.kind {
	case tUnresolved:
		if n.alt != nil {
			return "<unresolved or " + n.alt.str(depth+1) + ">"
		}
		return "<unresolved>"
	case tNull:
		return "null"
	case tBool:
		return fmt.Sprint(n.b)
	case tNum:
		if n.special != "" {
			return n.special
		}
		return n.num.RatString()
	case tString:
		return fmt.Sprintf("%q", n.data)
	case tList, tMap, tNode, tEdge:
		var sb strings.Builder
		sb.WriteString([]string{"[", "{", "(", "@("}[n.kind-tList])
		for i, c := range n.children {
			if i > 0 {
				sb.WriteString(" ")
			}
			if sb.Len() > 200 {
				sb.WriteString("…")
				break
			}
			sb.WriteString(c.str(depth + 1))
		}
		sb.WriteString("]")
		return sb.String()
	}
	return fmt.Sprintf("<%d %s %d %x>", n.kind, n.at, n.n, clipB(n.data))
}

var ratTen = big.NewRat(10, 1)

func pow10Rat(e int64) *big.Rat {
	p := new(big.Int).Exp(big.NewInt(10), big.NewInt(abs64i(e)), nil)
	if e >= 0 {
		return new(big.Rat).SetInt(p)
	}
	return new(big.Rat).SetFrac(big.NewInt(1), p)
}

func abs64i(v int64) int64 {
	if v < 0 {
		return -v
	}
	return v
}

func numFromFloat(f float64) *tnode {
	switch {
	case f != f:
		if math.Float64bits(f)&(1<<51) == 0 {
			return &tnode{kind: tNum, special: "snan"}
		}
		return &tnode{kind: tNum, special: "nan"}
	case math.IsInf(f, 1):
		return &tnode{kind: tNum, special: "+inf"}
	case math.IsInf(f, -1):
		return &tnode{kind: tNum, special: "-inf"}
	case f == 0 && math.Signbit(f):
		return &tnode{kind: tNum, special: "-0"}
	}
	r, _ := new(big.Rat).SetString(new(big.Float).SetFloat64(f).Text('p', 0))
	if r == nil {
		r = new(big.Rat)
		r.SetFloat64(f)
	}
	return &tnode{kind: tNum, num: r}
}

// scalarNode converts one scalar event into a tree node (ok=false if e is not a scalar event).
func scalarNode(e ev.E) (*tnode, bool) {
	switch e.K {
	case ev.Null:
		return &tnode{kind: tNull}, true
	case ev.Boolean:
		return &tnode{kind: tBool, b: e.B}, true
	case ev.True:
		return &tnode{kind: tBool, b: true}, true
	case ev.False:
		return &tnode{kind: tBool, b: false}, true
	case ev.PInt:
		return &tnode{kind: tNum, num: new(big.Rat).SetInt(new(big.Int).SetUint64(e.U))}, true
	case ev.NInt:
		if e.U == 0 {
			return &tnode{kind: tNum, special: "-0"}, true
		}
		return &tnode{kind: tNum, num: new(big.Rat).SetInt(new(big.Int).Neg(new(big.Int).SetUint64(e.U)))}, true
	case ev.Int:
		return &tnode{kind: tNum, num: new(big.Rat).SetInt64(e.I)}, true
	case ev.BigInt:
		if e.Big == nil {
			return &tnode{kind: tNull}, true
		}
		return &tnode{kind: tNum, num: new(big.Rat).SetInt(e.Big)}, true
	case ev.Float:
		return numFromFloat(e.F), true
	case ev.NaN:
		if e.B {
			return &tnode{kind: tNum, special: "snan"}, true
		}
		return &tnode{kind: tNum, special: "nan"}, true
	case ev.BigFloat:
		if e.BF == nil {
			return &tnode{kind: tNull}, true
		}
		if e.BF.IsInf() {
			if e.BF.Signbit() {
				return &tnode{kind: tNum, special: "-inf"}, true
			}
			return &tnode{kind: tNum, special: "+inf"}, true
		}
		if e.BF.Sign() == 0 && e.BF.Signbit() {
			return &tnode{kind: tNum, special: "-0"}, true
		}
		r, _ := e.BF.Rat(nil)
		return &tnode{kind: tNum, num: r}, true
	case ev.DFloat:
		d := e.DF
		switch {
		case d.IsSignalingNan():
			return &tnode{kind: tNum, special: "snan"}, true
		case d.IsNan():
			return &tnode{kind: tNum, special: "nan"}, true
		case d.IsInfinity():
			if d.IsNegativeInfinity() {
				return &tnode{kind: tNum, special: "-inf"}, true
			}
			return &tnode{kind: tNum, special: "+inf"}, true
		case d.IsNegativeZero():
			return &tnode{kind: tNum, special: "-0"}, true
		}
		r := new(big.Rat).SetInt64(d.Coefficient)
		r.Mul(r, pow10Rat(int64(d.Exponent)))
		return &tnode{kind: tNum, num: r}, true
	case ev.BigDecimal:
		if e.BDec == nil {
			return &tnode{kind: tNull}, true
		}
		switch e.BDec.Form {
		case apd.NaN:
			return &tnode{kind: tNum, special: "nan"}, true
		case apd.NaNSignaling:
			return &tnode{kind: tNum, special: "snan"}, true
		case apd.Infinite:
			if e.BDec.Negative {
				return &tnode{kind: tNum, special: "-inf"}, true
			}
			return &tnode{kind: tNum, special: "+inf"}, true
		}
		if e.BDec.Coeff.Sign() == 0 && e.BDec.Negative {
			return &tnode{kind: tNum, special: "-0"}, true
		}
		r := new(big.Rat).SetInt(&e.BDec.Coeff)
		if e.BDec.Negative {
			r.Neg(r)
		}
		r.Mul(r, pow10Rat(int64(e.BDec.Exponent)))
		return &tnode{kind: tNum, num: r}, true
	case ev.UID:
		return &tnode{kind: tUID, data: e.Data}, true
	case ev.Time:
		return &tnode{kind: tTime, t: e.T}, true
	case ev.Array, ev.StrArray:
		return arrayNode(e.AT, e.U, e.Data, e.K == ev.StrArray), true
	case ev.Media:
		return &tnode{kind: tMedia, mt: e.S, data: e.Data}, true
	case ev.CustomBin:
		return &tnode{kind: tCustom, ct: e.U, data: e.Data, at: events.ArrayTypeCustomBinary}, true
	case ev.CustomText:
		return &tnode{kind: tCustom, ct: e.U, data: e.Data, at: events.ArrayTypeCustomText}, true
	}
	return nil, false
}

func arrayNode(at events.ArrayType, n uint64, data []byte, stringlike bool) *tnode {
	switch at {
	case events.ArrayTypeString:
		return &tnode{kind: tString, data: data}
	case events.ArrayTypeResourceID:
		return &tnode{kind: tRID, data: data}
	case events.ArrayTypeReferenceRemote:
		return &tnode{kind: tRemote, data: data}
	}
	return &tnode{kind: tArray, at: at, n: n, data: data}
}

// treeOf builds the value tree of a complete event stream; records become maps keyed by their record type's keys,
// markers register their node and references resolve to the SAME node (so sharing and cycles are preserved).
func treeOf(es []ev.E) (root *tnode, err error) {
	defer func() {
		if x := recover(); x != nil {
			err = fmt.Errorf("malformed event stream: %v", x)
		}
	}()
	recTypes := map[string][]*tnode{}
	marked := map[string]*tnode{}
	type pendingRef struct {
		parent *tnode
		idx    int
		id     string
	}
	var pending []pendingRef
	i := 0
	var value func() *tnode
	attach := func(parent *tnode, n *tnode, refID string) {
		parent.children = append(parent.children, n)
		if refID != "" {
			pending = append(pending, pendingRef{parent, len(parent.children) - 1, refID})
		}
	}
	// returns node and, for an unresolved forward reference, its id
	var valueOrRef func() (*tnode, string)
	valueOrRef = func() (*tnode, string) {
		for es[i].K == ev.Padding || es[i].K == ev.Comment {
			i++
		}
		e := es[i]
		switch e.K {
		case ev.Marker:
			i++
			id := string(e.Data)
			// containers must be registered before their contents are read (cycles)
			switch es[i].K {
			case ev.List, ev.Map, ev.Node, ev.Edge, ev.Record:
				n := &tnode{}
				marked[id] = n
				built := value()
				*n = *built
				return n, ""
			}
			n := value()
			marked[id] = n
			return n, ""
		case ev.Ref:
			i++
			if n, ok := marked[string(e.Data)]; ok {
				return n, ""
			}
			return &tnode{kind: tNull}, string(e.Data)
		}
		return value(), ""
	}
	container := func(kind tkind) *tnode {
		n := &tnode{kind: kind}
		i++
		for {
			for es[i].K == ev.Padding || es[i].K == ev.Comment {
				i++
			}
			if es[i].K == ev.End {
				i++
				return n
			}
			c, ref := valueOrRef()
			attach(n, c, ref)
		}
	}
	value = func() *tnode {
		for es[i].K == ev.Padding || es[i].K == ev.Comment {
			i++
		}
		e := es[i]
		if n, ok := scalarNode(e); ok {
			i++
			return n
		}
		switch e.K {
		case ev.List:
			return container(tList)
		case ev.Map:
			return container(tMap)
		case ev.Node:
			return container(tNode)
		case ev.Edge:
			return container(tEdge)
		case ev.Record:
			keys := recTypes[string(e.Data)]
			vals := container(tList)
			n := &tnode{kind: tMap}
			for k, v := range vals.children {
				if k < len(keys) {
					n.children = append(n.children, keys[k], v)
				}
			}
			if len(vals.children) != len(keys) {
				panic(fmt.Sprintf("record %s has %d values for %d keys", e.Data, len(vals.children), len(keys)))
			}
			return n
		case ev.ArrayBegin, ev.MediaBegin, ev.CustomBegin:
			i++
			var data []byte
			var elems uint64
			for es[i].K == ev.Chunk {
				elems += es[i].U
				more := es[i].B
				i++
				for i < len(es) && es[i].K == ev.Data {
					data = append(data, es[i].Data...)
					i++
				}
				if !more {
					break
				}
			}
			switch e.K {
			case ev.MediaBegin:
				return &tnode{kind: tMedia, mt: e.S, data: data}
			case ev.CustomBegin:
				return &tnode{kind: tCustom, ct: e.U, data: data, at: e.AT}
			}
			return arrayNode(e.AT, elems, data, false)
		}
		panic(fmt.Sprintf("unexpected event %s at %d", e.Key(), i))
	}
	for i < len(es) {
		switch es[i].K {
		case ev.BD, ev.Version, ev.Padding, ev.Comment:
			i++
		case ev.RecordType:
			id := string(es[i].Data)
			keys := container(tList)
			recTypes[id] = keys.children
		case ev.ED:
			i = len(es)
		default:
			if root != nil {
				return nil, fmt.Errorf("second top-level value at event %d", i)
			}
			var ref string
			root, ref = valueOrRef()
			_ = ref
		}
	}
	for _, p := range pending {
		n, ok := marked[p.id]
		if !ok {
			return nil, fmt.Errorf("unresolved reference %s", p.id)
		}
		p.parent.children[p.idx] = n
	}
	if root == nil {
		return nil, fmt.Errorf("no top-level value")
	}
	return root, nil
}

// ---------- matching a tree against a Go value (C05: "the events describe exactly that value") ----------

type matcher struct {
	omitEmpty bool // struct fields that are empty may be absent (default omit behaviour)
	lenient   bool // unknown keys are allowed and absent fields must be zero (unmarshal side: C09, C21)
	visited   map[[2]uintptr]bool
}

func fieldIdent(s string) string {
	return strings.ReplaceAll(strings.ToLower(s), "_", "")
}

func isEmptyValue(v reflect.Value) bool {
	switch v.Kind() {
	case reflect.Interface, reflect.Ptr:
		return v.IsNil()
	case reflect.Map, reflect.Slice:
		return v.IsNil() || v.Len() == 0
	case reflect.Array, reflect.String:
		return v.Len() == 0
	}
	return false
}

func ratOfValue(v reflect.Value) (*tnode, bool) {
	switch v.Kind() {
	case reflect.Int, reflect.Int8, reflect.Int16, reflect.Int32, reflect.Int64:
		return &tnode{kind: tNum, num: new(big.Rat).SetInt64(v.Int())}, true
	case reflect.Uint, reflect.Uint8, reflect.Uint16, reflect.Uint32, reflect.Uint64, reflect.Uintptr:
		return &tnode{kind: tNum, num: new(big.Rat).SetInt(new(big.Int).SetUint64(v.Uint()))}, true
	case reflect.Float32, reflect.Float64:
		return numFromFloat(v.Float()), true
	}
	return nil, false
}

func numEqual(a, b *tnode) bool {
	if a.kind != tNum || b.kind != tNum {
		return false
	}
	sa, sb := a.special, b.special
	// NaN: only the quiet/signalling kind is significant (and Go float conversions may quieten: accept either NaN)
	if strings.HasSuffix(sa, "nan") || strings.HasSuffix(sb, "nan") {
		return strings.HasSuffix(sa, "nan") && strings.HasSuffix(sb, "nan")
	}
	if sa == "-0" {
		sa, a = "", &tnode{kind: tNum, num: new(big.Rat)}
	}
	if sb == "-0" {
		sb, b = "", &tnode{kind: tNum, num: new(big.Rat)}
	}
	if sa != "" || sb != "" {
		return sa == sb
	}
	return a.num.Cmp(b.num) == 0
}

var (
	typTime   = reflect.TypeOf(time.Time{})
	typCTime  = reflect.TypeOf(compact_time.Time{})
	typBigInt = reflect.TypeOf(big.Int{})
	typBigF   = reflect.TypeOf(big.Float{})
	typDec    = reflect.TypeOf(apd.Decimal{})
	typDFloat = reflect.TypeOf(compact_float.DFloat{})
	typURL    = reflect.TypeOf(url.URL{})
	typUID    = reflect.TypeOf(types.UID{})
	typMedia  = reflect.TypeOf(types.Media{})
	typNode   = reflect.TypeOf(types.Node{})
	typEdge   = reflect.TypeOf(types.Edge{})
	typBytes  = reflect.TypeOf([]byte{})
)

// leBytes: independent little-endian rendering of a numeric slice/array (reference for typed array contents)
func leBytes(v reflect.Value) (events.ArrayType, []byte, bool) {
	n := v.Len()
	var buf bytes.Buffer
	put := func(x interface{}) { binary.Write(&buf, binary.LittleEndian, x) }
	var at events.ArrayType
	wordBits := 64
	if ^uint(0)>>32 == 0 {
		wordBits = 32
	}
	for i := 0; i < n; i++ {
		e := v.Index(i)
		switch e.Kind() {
		case reflect.Uint8:
			at = events.ArrayTypeUint8
			put(uint8(e.Uint()))
		case reflect.Uint16:
			at = events.ArrayTypeUint16
			put(uint16(e.Uint()))
		case reflect.Uint32:
			at = events.ArrayTypeUint32
			put(uint32(e.Uint()))
		case reflect.Uint64:
			at = events.ArrayTypeUint64
			put(e.Uint())
		case reflect.Uint:
			if wordBits == 64 {
				at = events.ArrayTypeUint64
				put(e.Uint())
			} else {
				at = events.ArrayTypeUint32
				put(uint32(e.Uint()))
			}
		case reflect.Int8:
			at = events.ArrayTypeInt8
			put(int8(e.Int()))
		case reflect.Int16:
			at = events.ArrayTypeInt16
			put(int16(e.Int()))
		case reflect.Int32:
			at = events.ArrayTypeInt32
			put(int32(e.Int()))
		case reflect.Int64:
			at = events.ArrayTypeInt64
			put(e.Int())
		case reflect.Int:
			if wordBits == 64 {
				at = events.ArrayTypeInt64
				put(e.Int())
			} else {
				at = events.ArrayTypeInt32
				put(int32(e.Int()))
			}
		case reflect.Float32:
			at = events.ArrayTypeFloat32
			put(float32(e.Float()))
		case reflect.Float64:
			at = events.ArrayTypeFloat64
			put(e.Float())
		default:
			return 0, nil, false
		}
	}
	if n == 0 {
		switch v.Type().Elem().Kind() {
		case reflect.Uint8:
			at = events.ArrayTypeUint8
		case reflect.Uint16:
			at = events.ArrayTypeUint16
		case reflect.Uint32:
			at = events.ArrayTypeUint32
		case reflect.Uint64:
			at = events.ArrayTypeUint64
		case reflect.Int8:
			at = events.ArrayTypeInt8
		case reflect.Int16:
			at = events.ArrayTypeInt16
		case reflect.Int32:
			at = events.ArrayTypeInt32
		case reflect.Int64:
			at = events.ArrayTypeInt64
		case reflect.Float32:
			at = events.ArrayTypeFloat32
		case reflect.Float64:
			at = events.ArrayTypeFloat64
		case reflect.Int:
			at = events.ArrayTypeInt64
			if wordBits == 32 {
				at = events.ArrayTypeInt32
			}
		case reflect.Uint:
			at = events.ArrayTypeUint64
			if wordBits == 32 {
				at = events.ArrayTypeUint32
			}
		default:
			return 0, nil, false
		}
	}
	return at, buf.Bytes(), true
}

func isNumericElem(k reflect.Kind) bool {
	switch k {
	case reflect.Uint8, reflect.Uint16, reflect.Uint32, reflect.Uint64, reflect.Uint, reflect.Int8, reflect.Int16, reflect.Int32, reflect.Int64, reflect.Int, reflect.Float32, reflect.Float64:
		return true
	}
	return false
}

// match returns "" when tree node n describes exactly the Go value v.
func (m *matcher) match(n *tnode, v reflect.Value, path string) string {
	if n.kind == tUnresolved {
		for v.IsValid() && (v.Kind() == reflect.Interface || v.Kind() == reflect.Ptr) && !v.IsNil() {
			v = v.Elem()
		}
		if !v.IsValid() || v.IsZero() {
			return ""
		}
		if n.alt != nil {
			return m.match(n.alt, v, path)
		}
		return fmt.Sprintf("%s: the reference was never resolved, yet the result holds %v there", path, v)
	}
	if !v.IsValid() {
		if n.kind == tNull {
			return ""
		}
		return path + ": expected null, events carry " + n.String()
	}
	t := v.Type()
	// special struct / pointer types first
	switch t {
	case typTime:
		ct := compact_time.AsCompactTime(v.Interface().(time.Time))
		return m.matchTime(n, ct, path)
	case typCTime:
		return m.matchTime(n, v.Interface().(compact_time.Time), path)
	case typBigInt:
		x := v.Interface().(big.Int)
		return m.matchNum(n, &tnode{kind: tNum, num: new(big.Rat).SetInt(&x)}, path)
	case typBigF:
		x := v.Interface().(big.Float)
		ref, _ := scalarNode(ev.EBigFloat(&x))
		return m.matchNum(n, ref, path)
	case typDec:
		x := v.Interface().(apd.Decimal)
		ref, _ := scalarNode(ev.EBigDec(&x))
		return m.matchNum(n, ref, path)
	case typDFloat:
		ref, _ := scalarNode(ev.EDFloat(v.Interface().(compact_float.DFloat)))
		return m.matchNum(n, ref, path)
	case typURL:
		u := v.Interface().(url.URL)
		if n.kind != tRID || string(n.data) != u.String() {
			return fmt.Sprintf("%s: expected resource id %q, events carry %s", path, u.String(), n)
		}
		return ""
	case typUID:
		u := v.Interface().(types.UID)
		if n.kind != tUID || !bytes.Equal(n.data, u[:]) {
			return fmt.Sprintf("%s: expected uid %x, events carry %s", path, u[:], n)
		}
		return ""
	case typMedia:
		md := v.Interface().(types.Media)
		if n.kind != tMedia || n.mt != md.MediaType || !bytes.Equal(n.data, md.Data) {
			return fmt.Sprintf("%s: expected media %q %x, events carry %s", path, md.MediaType, clipB(md.Data), n)
		}
		return ""
	case typNode:
		if n.kind != tNode || len(n.children) < 1 {
			return fmt.Sprintf("%s: expected a node, events carry %s", path, n)
		}
		if msg := m.match(n.children[0], v.Field(types.NodeFieldIndexValue), path+".Value"); msg != "" {
			return msg
		}
		ch := v.Field(types.NodeFieldIndexChildren)
		if ch.Len() != len(n.children)-1 {
			return fmt.Sprintf("%s: node has %d children, events carry %d", path, ch.Len(), len(n.children)-1)
		}
		for i := 0; i < ch.Len(); i++ {
			if msg := m.match(n.children[i+1], ch.Index(i), fmt.Sprintf("%s.Children[%d]", path, i)); msg != "" {
				return msg
			}
		}
		return ""
	case typEdge:
		if n.kind != tEdge || len(n.children) != 3 {
			return fmt.Sprintf("%s: expected an edge with 3 components, events carry %s", path, n)
		}
		for i := 0; i < 3; i++ {
			if msg := m.match(n.children[i], v.Field(i), fmt.Sprintf("%s.edge[%d]", path, i)); msg != "" {
				return msg
			}
		}
		return ""
	}
	if k := t.Kind(); (k == reflect.Slice || k == reflect.Map) && v.Len() > 0 && (n.kind == tList || n.kind == tMap) {
		// cycles through slices and maps held in interface{} (a marked container referenced from inside itself)
		key := [2]uintptr{v.Pointer(), uintptr(reflect.ValueOf(n).Pointer())}
		if k == reflect.Slice {
			key[0] ^= uintptr(v.Len()) << 48
		}
		if m.visited[key] {
			return ""
		}
		if m.visited == nil {
			m.visited = map[[2]uintptr]bool{}
		}
		m.visited[key] = true
	}
	switch t.Kind() {
	case reflect.Interface:
		if v.IsNil() {
			return m.match(n, reflect.Value{}, path)
		}
		return m.match(n, v.Elem(), path)
	case reflect.Ptr:
		if v.IsNil() {
			return m.match(n, reflect.Value{}, path)
		}
		key := [2]uintptr{v.Pointer(), uintptr(reflect.ValueOf(n).Pointer())}
		if m.visited[key] {
			return ""
		}
		if m.visited == nil {
			m.visited = map[[2]uintptr]bool{}
		}
		m.visited[key] = true
		return m.match(n, v.Elem(), path)
	case reflect.Bool:
		if n.kind != tBool || n.b != v.Bool() {
			return fmt.Sprintf("%s: expected %v, events carry %s", path, v.Bool(), n)
		}
		return ""
	case reflect.String:
		if n.kind != tString || string(n.data) != v.String() {
			return fmt.Sprintf("%s: expected string %q, events carry %s", path, clipS(v.String()), n)
		}
		return ""
	}
	if ref, ok := ratOfValue(v); ok {
		return m.matchNum(n, ref, path)
	}
	switch t.Kind() {
	case reflect.Slice, reflect.Array:
		if t.Kind() == reflect.Slice && v.IsNil() && !isNumericElem(t.Elem().Kind()) && t.Elem().Kind() != reflect.Bool {
			return m.match(n, reflect.Value{}, path)
		}
		ek := t.Elem().Kind()
		if isNumericElem(ek) && n.kind != tList {
			at, want, _ := leBytes(v)
			if n.kind != tArray || n.at != at || n.n != uint64(v.Len()) || !bytes.Equal(n.data, want) {
				return fmt.Sprintf("%s: expected %s array of %d elements %x, events carry %s", path, at, v.Len(), clipB(want), n)
			}
			return ""
		}
		if ek == reflect.Bool {
			want := make([]byte, (v.Len()+7)/8)
			for i := 0; i < v.Len(); i++ {
				if v.Index(i).Bool() {
					want[i/8] |= 1 << uint(i%8)
				}
			}
			if n.kind != tArray || n.at != events.ArrayTypeBit || n.n != uint64(v.Len()) || !bytes.Equal(n.data, want) {
				return fmt.Sprintf("%s: expected bit array of %d elements %x, events carry %s", path, v.Len(), want, n)
			}
			return ""
		}
		if n.kind != tList || len(n.children) != v.Len() {
			return fmt.Sprintf("%s: expected a list of %d elements, events carry %s", path, v.Len(), n)
		}
		for i := 0; i < v.Len(); i++ {
			if msg := m.match(n.children[i], v.Index(i), fmt.Sprintf("%s[%d]", path, i)); msg != "" {
				return msg
			}
		}
		return ""
	case reflect.Map:
		if v.IsNil() {
			return m.match(n, reflect.Value{}, path)
		}
		if n.kind != tMap || len(n.children) != 2*v.Len() {
			return fmt.Sprintf("%s: expected a map of %d entries, events carry %s", path, v.Len(), n)
		}
		used := make([]bool, v.Len())
		keys := v.MapKeys()
		for i := 0; i < len(n.children); i += 2 {
			found := false
			for ki, k := range keys {
				if used[ki] {
					continue
				}
				sub := &matcher{omitEmpty: m.omitEmpty}
				if sub.match(n.children[i], k, "") == "" {
					used[ki] = true
					found = true
					if msg := m.match(n.children[i+1], v.MapIndex(k), fmt.Sprintf("%s[%v]", path, k)); msg != "" {
						return msg
					}
					break
				}
			}
			if !found {
				return fmt.Sprintf("%s: events carry map key %s that the value does not have (or has once only)", path, n.children[i])
			}
		}
		return ""
	case reflect.Struct:
		if n.kind != tMap {
			return fmt.Sprintf("%s: expected a map/record for struct %s, events carry %s", path, t, n)
		}
		type fld struct {
			name string
			v    reflect.Value
			seen bool
		}
		var fields []*fld
		var collect func(sv reflect.Value)
		collect = func(sv reflect.Value) {
			st := sv.Type()
			for i := 0; i < st.NumField(); i++ {
				f := st.Field(i)
				if f.PkgPath != "" {
					continue
				}
				if f.Anonymous && f.Type.Kind() == reflect.Struct {
					collect(sv.Field(i))
					continue
				}
				fields = append(fields, &fld{name: f.Name, v: sv.Field(i)})
			}
		}
		collect(v)
		for i := 0; i+1 < len(n.children); i += 2 {
			k := n.children[i]
			if k.kind != tString {
				return fmt.Sprintf("%s: struct key %s is not a string", path, k)
			}
			var hit *fld
			for _, f := range fields {
				if fieldIdent(f.name) == fieldIdent(string(k.data)) {
					hit = f
				}
			}
			if hit == nil {
				if m.lenient {
					continue // unknown keys are skipped by the builder (C09/C21 lenient matching)
				}
				return fmt.Sprintf("%s: events carry key %q that matches no field of %s", path, k.data, t)
			}
			if hit.seen {
				return fmt.Sprintf("%s: field %s appears twice", path, hit.name)
			}
			hit.seen = true
			if msg := m.match(n.children[i+1], hit.v, path+"."+hit.name); msg != "" {
				return msg
			}
		}
		for _, f := range fields {
			if !f.seen && !(m.omitEmpty && isEmptyValue(f.v)) && !(m.lenient && f.v.IsZero()) {
				return fmt.Sprintf("%s: field %s (non-empty) does not appear in the events", path, f.name)
			}
		}
		return ""
	}
	return fmt.Sprintf("%s: unsupported kind %s in matcher", path, t)
}

func (m *matcher) matchNum(n, ref *tnode, path string) string {
	if ref.kind == tNull {
		if n.kind == tNull {
			return ""
		}
		return fmt.Sprintf("%s: expected null, events carry %s", path, n)
	}
	if !numEqual(n, ref) {
		return fmt.Sprintf("%s: expected number %s, events carry %s", path, ref, n)
	}
	return ""
}

func (m *matcher) matchTime(n *tnode, ct compact_time.Time, path string) string {
	if ct.IsZeroValue() {
		if n.kind == tNull || n.kind == tTime {
			return "" // zero time is deliberately written as null (DESIGN: don't-care)
		}
	}
	if n.kind != tTime || !timesEquivalent(n.t, ct) {
		return fmt.Sprintf("%s: expected time %v, events carry %s (%v)", path, ct, n, n.t)
	}
	return ""
}

func timesEquivalent(a, b compact_time.Time) bool {
	if a.Type != b.Type || a.Year != b.Year || a.Month != b.Month || a.Day != b.Day || a.Hour != b.Hour || a.Minute != b.Minute || a.Second != b.Second || a.Nanosecond != b.Nanosecond {
		return false
	}
	if a.Type == compact_time.TimeTypeDate {
		return true
	}
	return tzKey(a.Timezone) == tzKey(b.Timezone)
}

func tzKey(z compact_time.Timezone) string {
	switch z.Type {
	case compact_time.TimezoneTypeUTC:
		return "utc"
	case compact_time.TimezoneTypeAreaLocation:
		switch z.LongAreaLocation {
		case "Etc/UTC", "Zero", "Z", "UTC", "Etc/GMT":
			return "utc"
		case "Local", "L":
			return "local"
		}
		return "area:" + z.LongAreaLocation
	case compact_time.TimezoneTypeLocal:
		return "local"
	case compact_time.TimezoneTypeLatitudeLongitude:
		return fmt.Sprintf("ll:%d/%d", z.LatitudeHundredths, z.LongitudeHundredths)
	case compact_time.TimezoneTypeUTCOffset:
		if z.MinutesOffsetFromUTC == 0 {
			return "utc"
		}
		return fmt.Sprintf("off:%d", z.MinutesOffsetFromUTC)
	}
	return fmt.Sprintf("type%d", z.Type)
}
