package checks

import (
	"fmt"
	"reflect"

	"github.com/kstenerud/go-concise-encoding/cbe"
	"github.com/kstenerud/go-concise-encoding/configuration"
	"github.com/kstenerud/go-concise-encoding/cte"
	"verif/harness/internal/codec"
	"verif/harness/internal/ev"
	"verif/harness/internal/fx"
)

// valueEnd returns the index just after the value that starts at doc[i].
func valueEnd(doc []ev.E, i int) int {
	switch doc[i].K {
	case ev.Marker:
		return valueEnd(doc, i+1)
	case ev.List, ev.Map, ev.Edge, ev.Node, ev.Record, ev.RecordType:
		depth := 0
		for j := i; j < len(doc); j++ {
			switch doc[j].K {
			case ev.List, ev.Map, ev.Edge, ev.Node, ev.Record, ev.RecordType:
				depth++
			case ev.End:
				depth--
				if depth == 0 {
					return j + 1
				}
			}
		}
		return len(doc)
	case ev.ArrayBegin, ev.MediaBegin, ev.CustomBegin:
		j := i + 1
		for j < len(doc) && (doc[j].K == ev.Chunk || doc[j].K == ev.Data) {
			j++
		}
		return j
	}
	return i + 1
}

// resolveRefs returns doc with every local reference replaced by a copy of the marked value and every marker removed.
// ok=false when the document is cyclic (a reference inside its own marked value) or a marker is missing.
func resolveRefs(doc []ev.E) (out []ev.E, ok bool) {
	type span struct{ from, to int }
	marked := map[string]span{}
	for i, e := range doc {
		if e.K == ev.Marker {
			marked[string(e.Data)] = span{i + 1, valueEnd(doc, i+1)}
		}
	}
	var emit func(from, to int, active map[string]bool) bool
	emit = func(from, to int, active map[string]bool) bool {
		for i := from; i < to; i++ {
			e := doc[i]
			switch e.K {
			case ev.Marker:
				continue
			case ev.Ref:
				id := string(e.Data)
				sp, found := marked[id]
				if !found || active[id] || (i >= sp.from && i < sp.to) {
					return false
				}
				active[id] = true
				if !emit(sp.from, sp.to, active) {
					return false
				}
				delete(active, id)
			default:
				out = append(out, e)
			}
		}
		return true
	}
	if !emit(0, len(doc), map[string]bool{}) {
		return nil, false
	}
	return out, true
}

type refDoc struct {
	name      string
	doc       []ev.E
	templates []interface{}
}

// refFamily: documents with forward and backward references in containers of growing size, with the typed templates
// that fit them. The marked value kinds select the typed builders' BuildFromLocalReference paths.
func refFamily(maxLen int) []refDoc {
	var out []refDoc
	hdr := func(es ...ev.E) []ev.E {
		return append(append([]ev.E{ev.EBD(), ev.EV(0)}, es...), ev.EED())
	}
	type mk struct {
		name      string
		val       func(k int) []ev.E // k-th plain element / the marked element
		listTpl   []interface{}
		mapTpl    []interface{}
		structTpl []interface{}
	}
	type S struct{ K0, K1, K2, K3, K4, K5, K6, K7, K8, K9 int }
	type SP struct{ K0, K1, K2, K3, K4, K5, K6, K7, K8, K9 *int }
	type SS struct{ K0, K1, K2, K3, K4, K5, K6, K7, K8, K9 string }
	type SI struct{ K0, K1, K2, K3, K4, K5, K6, K7, K8, K9 interface{} }
	type SL struct{ K0, K1, K2, K3, K4, K5, K6, K7, K8, K9 []int }
	kinds := []mk{
		{"int", func(k int) []ev.E { return []ev.E{ev.EPInt(uint64(10 + k))} },
			[]interface{}{nil, []interface{}{}, []int{}, []*int{}, []int64{}, []float64{}, [12]int{}},
			[]interface{}{nil, map[string]int{}, map[string]interface{}{}, map[string]*int{}},
			[]interface{}{S{}, SP{}, SI{}}},
		{"string", func(k int) []ev.E { return []ev.E{ev.EStr(fmt.Sprintf("s%d", k))} },
			[]interface{}{nil, []interface{}{}, []string{}, []*string{}},
			[]interface{}{nil, map[string]string{}, map[string]interface{}{}},
			[]interface{}{SS{}, SI{}}},
		{"list", func(k int) []ev.E { return []ev.E{ev.EList(), ev.EPInt(uint64(k)), ev.EPInt(7), ev.EEnd()} },
			[]interface{}{nil, []interface{}{}, [][]int{}, []*[]int{}},
			[]interface{}{nil, map[string][]int{}, map[string]interface{}{}},
			[]interface{}{SL{}, SI{}}},
		{"map", func(k int) []ev.E { return []ev.E{ev.EMap(), ev.EStr("x"), ev.EPInt(uint64(k)), ev.EEnd()} },
			[]interface{}{nil, []interface{}{}, []map[string]int{}, []*map[string]int{}},
			[]interface{}{nil, map[string]map[string]int{}, map[string]interface{}{}},
			nil},
	}
	for _, kd := range kinds {
		for n := 2; n <= maxLen; n++ {
			for mpos := 0; mpos < n; mpos++ {
				for rpos := 0; rpos < n; rpos++ {
					if rpos == mpos {
						continue
					}
					// second reference position (optional): -1 or one other slot
					for _, r2 := range []int{-1, (rpos + 2) % n} {
						if r2 == mpos || r2 == rpos {
							continue
						}
						elem := func(k int) []ev.E {
							switch k {
							case mpos:
								return append([]ev.E{ev.EMarker("m")}, kd.val(k)...)
							case rpos, r2:
								return []ev.E{ev.ERef("m")}
							}
							return kd.val(k)
						}
						var lst, mp, nd []ev.E
						lst = append(lst, ev.EList())
						mp = append(mp, ev.EMap())
						nd = append(nd, ev.ENode(), ev.ENull())
						for k := 0; k < n; k++ {
							lst = append(lst, elem(k)...)
							nd = append(nd, elem(k)...)
							mp = append(mp, ev.EStr(fmt.Sprintf("k%d", k)))
							mp = append(mp, elem(k)...)
						}
						lst = append(lst, ev.EEnd())
						mp = append(mp, ev.EEnd())
						nd = append(nd, ev.EEnd())
						tag := fmt.Sprintf("%s:n%d", kd.name, n)
						dir := "backward"
						if rpos < mpos {
							dir = "forward"
						}
						out = append(out, refDoc{"list:" + dir + ":" + tag, hdr(lst...), kd.listTpl})
						if n <= 10 {
							tpls := append([]interface{}{}, kd.mapTpl...)
							tpls = append(tpls, kd.structTpl...)
							out = append(out, refDoc{"map:" + dir + ":" + tag, hdr(mp...), tpls})
						}
						if r2 == -1 {
							out = append(out, refDoc{"node-children:" + dir + ":" + tag, hdr(nd...), []interface{}{nil}})
							nested := append([]ev.E{ev.EMap(), ev.EStr("a")}, lst...)
							nested = append(nested, ev.EEnd())
							out = append(out, refDoc{"list-in-map:" + dir + ":" + tag, hdr(nested...), []interface{}{nil, map[string]interface{}{}}})
						}
					}
				}
			}
		}
	}
	return out
}

type unmarshalFn func(doc []byte, template interface{}) (interface{}, error)

// c13BuilderClause: "when a typed or untyped value is built, every reference is replaced by the marked value".
// Differential oracle: unmarshal(doc with references, T) == unmarshal(doc with the references textually resolved, T).
func c13BuilderClause(c *fx.Ctx) {
	fam := refFamily(c.Pick(9, 13))
	cfg := configuration.New()
	type key struct {
		f codec.Format
		t reflect.Type
	}
	cache := map[key]unmarshalFn{}
	get := func(f codec.Format, tpl interface{}) unmarshalFn {
		k := key{f, reflect.TypeOf(tpl)}
		if u, ok := cache[k]; ok {
			return u
		}
		var u unmarshalFn
		if f == codec.CBE {
			um := cbe.NewUnmarshaler(cfg)
			u = um.UnmarshalFromDocument
		} else {
			um := cte.NewUnmarshaler(cfg)
			u = um.UnmarshalFromDocument
		}
		cache[k] = u
		return u
	}
	for _, rd := range fam {
		if !c.Take() {
			continue
		}
		res, ok := resolveRefs(rd.doc)
		if !ok {
			continue
		}
		for _, f := range []codec.Format{codec.CBE, codec.CTE} {
			withRefs, _, err1 := codec.Encode(f, rd.doc, nil, true)
			plain, _, err2 := codec.Encode(f, res, nil, true)
			if err1 != nil || err2 != nil {
				c.Add("builder_docs_not_encodable", 1)
				continue
			}
			for _, tpl := range rd.templates {
				tname := "untyped"
				if tpl != nil {
					tname = reflect.TypeOf(tpl).String()
				}
				u := get(f, tpl)
				var got, want interface{}
				var e1, e2 error
				e1 = safeCall(func() error { var e error; got, e = u(withRefs, tpl); return e })
				e2 = safeCall(func() error { var e error; want, e = u(plain, tpl); return e })
				c.Add("evaluations", 1)
				c.Add("builder_cases", 1)
				w := c06Witness{Format: f.String(), Events: rd.doc, Doc: withRefs}
				if e2 != nil {
					c.Add("builder_reference_doc_fails", 1) // the reference-free document itself does not fit the template: not this clause
					continue
				}
				sigT := tname
				if len(sigT) > 40 {
					sigT = sigT[:40]
				}
				if e1 != nil {
					c.Violation(fmt.Sprintf("builder:%s:unmarshal-with-references-fails:%s:%s:%s", f, familyClass(rd.name), sigT, errClass(e1)),
						fmt.Sprintf("unmarshal into %s fails only when references are used (%v): [%s]", tname, e1, clipS(ev.Join(rd.doc))), w)
					continue
				}
				gk, wk := valueKey(got), valueKey(want)
				if gk != wk {
					c.Violation(fmt.Sprintf("builder:%s:reference-not-replaced:%s:%s", f, familyClass(rd.name), sigT),
						fmt.Sprintf("unmarshal into %s gives %s but with the references written out it gives %s: [%s]", tname, clipS(gk), clipS(wk), clipS(ev.Join(rd.doc))), w)
				}
				c.Distinct("builder", rd.name+tname+f.String()+ev.Join(rd.doc))
			}
		}
	}
}

// familyClass drops the length from a family name so one defect has one signature per (container, direction, kind).
func familyClass(name string) string {
	for i := len(name) - 1; i >= 0; i-- {
		if name[i] == ':' {
			return name[:i]
		}
	}
	return name
}
