package checks

import (
	"bytes"
	"encoding/json"
	"fmt"
	"runtime"
	"strings"
	"syscall"
	"time"

	"github.com/kstenerud/go-concise-encoding/ce"
	"github.com/kstenerud/go-concise-encoding/ce/events"
	"github.com/kstenerud/go-concise-encoding/configuration"
	"github.com/kstenerud/go-concise-encoding/rules"
	"verif/harness/internal/codec"
	"verif/harness/internal/ev"
	"verif/harness/internal/fx"
	"verif/harness/internal/gen"
)

type c08Witness struct {
	Family string `json:"family"`
	Shape  string `json:"shape"`
	Doc    []byte `json:"document,omitempty"`
	N      int    `json:"n,omitempty"`
	Config string `json:"config"`
}

type countingReceiver struct {
	events.DataEventReceiver
	n int
}

type c08Measure struct {
	alloc, mallocs uint64
	cpu            time.Duration
}

func measureAlloc(f func()) c08Measure {
	var a, b runtime.MemStats
	runtime.GC()
	runtime.ReadMemStats(&a)
	t0 := processCPU()
	f()
	d := processCPU() - t0
	runtime.ReadMemStats(&b)
	return c08Measure{alloc: b.TotalAlloc - a.TotalAlloc, mallocs: b.Mallocs - a.Mallocs, cpu: d}
}

// processCPU: user+system CPU time consumed by this process so far. Unlike wall time it does not grow while the
// process waits for a core on a loaded machine, which is what makes it usable as a (supplementary) oracle.
func processCPU() time.Duration {
	var ru syscall.Rusage
	if err := syscall.Getrusage(syscall.RUSAGE_SELF, &ru); err != nil {
		return 0
	}
	return time.Duration(ru.Utime.Nano() + ru.Stime.Nano())
}

type c08Decoder struct {
	name string
	run  func(doc []byte, cfg *configuration.Configuration)
}

func c08Decoders(f codec.Format) []c08Decoder {
	mk := func(cfg *configuration.Configuration) ce.Decoder {
		if f == codec.CBE {
			return ce.NewCBEDecoder(cfg)
		}
		return ce.NewCTEDecoder(cfg)
	}
	mku := func(cfg *configuration.Configuration) ce.Unmarshaler {
		if f == codec.CBE {
			return ce.NewCBEUnmarshaler(cfg)
		}
		return ce.NewCTEUnmarshaler(cfg)
	}
	return []c08Decoder{
		{"decode+rules", func(doc []byte, cfg *configuration.Configuration) {
			safeCall(func() error { return mk(cfg).DecodeDocument(doc, rules.NewRules(&ev.Recorder{}, cfg)) })
		}},
		{"decode-no-rules", func(doc []byte, cfg *configuration.Configuration) {
			safeCall(func() error { return mk(cfg).DecodeDocument(doc, &ev.Recorder{}) })
		}},
		{"unmarshal", func(doc []byte, cfg *configuration.Configuration) {
			safeCall(func() error { _, err := mku(cfg).UnmarshalFromDocument(doc, nil); return err })
		}},
		{"unmarshal-no-rules", func(doc []byte, cfg *configuration.Configuration) {
			c2 := *cfg
			c2.Marshal.EnforceRules = false
			safeCall(func() error { _, err := mku(&c2).UnmarshalFromDocument(doc, nil); return err })
		}},
	}
}

// ---- family A: every length-carrying field of CBE with a huge declared length and almost no payload ----

type c08LenDoc struct {
	name   string
	prefix []byte // up to (excluding) the length field
	suffix []byte // after the length field
}

func c08LengthDocs() []c08LenDoc {
	var out []c08LenDoc
	hdr := []byte{0x81, 0x00}
	enc := func(es ...ev.E) []byte {
		d, _, _ := codec.Encode(codec.CBE, append([]ev.E{ev.EBD(), ev.EV(0)}, es...), nil, false)
		return d
	}
	// array chunk headers of every array kind: encode "begin + chunk(1, final)" and cut the chunk header (last byte) off
	for _, k := range gen.ArrayKinds() {
		d := enc(k.Begin(), ev.EChunk(1, false))
		if len(d) < 3 {
			continue
		}
		out = append(out, c08LenDoc{"chunk-length:" + k.Name, d[:len(d)-1], nil})
	}
	// non-final chunk then a huge one
	d := enc(ev.EABegin(events.ArrayTypeUint8), ev.EChunk(2, true), ev.EData([]byte{1, 2}), ev.EChunk(1, false))
	out = append(out, c08LenDoc{"second-chunk-length:Uint8", d[:len(d)-1], nil})
	// media type length
	d = enc(ev.EMBegin("a/b"))
	if i := bytes.Index(d, []byte("a/b")); i > 0 {
		out = append(out, c08LenDoc{"media-type-length", d[:i-1], []byte("a/b")})
	}
	// identifier lengths
	for _, e := range []struct {
		n string
		e ev.E
	}{{"marker-id-length", ev.EMarker("a")}, {"reference-id-length", ev.ERef("a")}, {"record-type-id-length", ev.ERecType("a")}, {"record-id-length", ev.ERec("a")}} {
		d := enc(ev.EList(), e.e)
		if e.n == "record-type-id-length" {
			d = enc(e.e)
		}
		if i := bytes.LastIndexByte(d, 'a'); i > 0 {
			out = append(out, c08LenDoc{e.n, d[:i-1], []byte("a")})
		}
	}
	// variable-length integer byte count (positive and negative), big integer
	out = append(out, c08LenDoc{"varint-byte-count:positive", append(append([]byte{}, hdr...), 0x66), []byte{1, 2, 3}})
	out = append(out, c08LenDoc{"varint-byte-count:negative", append(append([]byte{}, hdr...), 0x67), []byte{1, 2, 3}})
	// version field
	out = append(out, c08LenDoc{"version", []byte{0x81}, []byte{0x7d}})
	// custom type code
	out = append(out, c08LenDoc{"custom-type-code", append(append([]byte{}, hdr...), 0x92), []byte{0x02, 1}})
	return out
}

func c08FamilyA(c *fx.Ctx) {
	lens := []uint64{1 << 10, 1 << 16, 1 << 20, 1 << 24, 1<<30 - 1, 1<<31 - 1, 1 << 32, 1 << 40, 1 << 62, ^uint64(0)}
	limits := []struct {
		name string
		v    uint64
	}{{"max-array-1KiB", 1 << 10}, {"max-array-1MiB", 1 << 20}, {"default", 0}}
	for _, ld := range c08LengthDocs() {
		for _, l := range lens {
			if !c.Take() {
				continue
			}
			c.Checkpoint()
			for _, shift := range []uint{0, 1} { // chunk headers carry (count<<1 | more): try both readings of the field
				for _, payload := range []int{0, 1, 16} {
					doc := append(append([]byte{}, ld.prefix...), uleb(l<<shift)...)
					doc = append(doc, ld.suffix...)
					doc = append(doc, bytes.Repeat([]byte{0x61}, payload)...)
					for _, lim := range limits {
						for _, dec := range c08Decoders(codec.CBE) {
							cfg := configuration.New()
							if lim.v != 0 {
								cfg.Rules.MaxArraySizeBytes = lim.v
							}
							c.TraceInput(func() string {
								return fmt.Sprintf("length-field %s declared=%d payload=%d %s %s doc=%x", ld.name, l<<shift, payload, lim.name, dec.name, doc)
							})
							dec.run(doc, cfg) // warm-up: one-time initialisations are not charged
							m := measureAlloc(func() { dec.run(doc, cfg) })
							c.Add("evaluations", 1)
							c.Add("length_field_cases", 1)
							bound := uint64(2<<20) + 4096*uint64(len(doc))
							if m.alloc > bound {
								c.Violation(fmt.Sprintf("memory:%s:%s:%s", ld.name, dec.name, lim.name),
									fmt.Sprintf("decoding the %d-byte document % x (%s declared %d, %d payload bytes, %s, %s) allocates %d bytes (bound %d)", len(doc), doc, ld.name, l<<shift, payload, lim.name, dec.name, m.alloc, bound),
									c08Witness{Family: "length-field", Shape: ld.name, Doc: doc, Config: lim.name + "/" + dec.name})
							}
							c.Max("max:bytes_allocated_for_a_length_field_document", int64(m.alloc))
						}
					}
				}
			}
			c.Distinct("nontrivial", fmt.Sprintf("A|%s|%d", ld.name, l))
		}
	}
}

// ---- family B: growth of deterministic work counters with document size ----

type c08Shape struct {
	name string
	f    codec.Format
	n0   int
	gen  func(n int) []byte
}

func c08Shapes() []c08Shape {
	hdr := []byte{0x81, 0x00}
	rep := func(prefix []byte, unit []byte, n int, suffix []byte) []byte {
		out := append([]byte{}, hdr...)
		out = append(out, prefix...)
		out = append(out, bytes.Repeat(unit, n)...)
		return append(out, suffix...)
	}
	t := func(pre, unit string, post string) func(n int) []byte {
		return func(n int) []byte { return []byte("c0\n" + pre + strings.Repeat(unit, n) + post) }
	}
	return []c08Shape{
		{"cbe:list-of-small-ints", codec.CBE, 4000, func(n int) []byte { return rep([]byte{0x9a}, []byte{0x01}, n, []byte{0x9b}) }},
		{"cbe:nested-lists", codec.CBE, 200, func(n int) []byte { return rep(nil, []byte{0x9a}, n, bytes.Repeat([]byte{0x9b}, n)) }},
		{"cbe:nested-maps", codec.CBE, 200, func(n int) []byte {
			return rep(nil, []byte{0x99, 0x81, 'a'}, n, append([]byte{0x01}, bytes.Repeat([]byte{0x9b}, n)...))
		}},
		{"cbe:string-in-1-byte-chunks", codec.CBE, 16000, func(n int) []byte { return rep([]byte{0x90}, []byte{0x03, 'a'}, n, []byte{0x00}) }},
		{"cbe:rid-in-1-byte-chunks", codec.CBE, 16000, func(n int) []byte { return rep([]byte{0x91}, []byte{0x03, 'a'}, n, []byte{0x00}) }},
		{"cbe:u8-array-in-1-byte-chunks", codec.CBE, 4000, func(n int) []byte { return rep([]byte{0x93}, []byte{0x03, 7}, n, []byte{0x00}) }},
		{"cbe:u16-array-in-1-element-chunks", codec.CBE, 4000, func(n int) []byte { return rep([]byte{0x94 + 1}, []byte{0x03, 7, 0}, n, []byte{0x00}) }},
		{"cbe:one-long-string", codec.CBE, 20000, func(n int) []byte {
			return append(append(append([]byte{}, hdr...), append([]byte{0x90}, uleb(uint64(n)<<1)...)...), bytes.Repeat([]byte{'a'}, n)...)
		}},
		{"cbe:many-short-strings", codec.CBE, 4000, func(n int) []byte { return rep([]byte{0x9a}, []byte{0x83, 'a', 'b', 'c'}, n, []byte{0x9b}) }},
		{"cbe:map-with-many-int-keys", codec.CBE, 2000, func(n int) []byte {
			out := append(append([]byte{}, hdr...), 0x99)
			for i := 0; i < n; i++ {
				out = append(out, 0x6a, byte(i), byte(i>>8), 0x01)
			}
			return append(out, 0x9b)
		}},
		{"cbe:many-markers", codec.CBE, 1000, func(n int) []byte {
			out := append(append([]byte{}, hdr...), 0x9a)
			for i := 0; i < n; i++ {
				id := fmt.Sprintf("m%d", i)
				out = append(append(append(out, 0x7f, 0xf0, byte(len(id))), id...), 0x01)
			}
			return append(out, 0x9b)
		}},
		{"cbe:padding-run", codec.CBE, 8000, func(n int) []byte {
			return rep([]byte{0x9a}, []byte{0x95 + 0x60}, 0, append(bytes.Repeat([]byte{0x7e}, n), 0x9b))
		}},
		{"cte:list-of-small-ints", codec.CTE, 1000, t("[", "1 ", "]")},
		{"cte:nested-lists", codec.CTE, 100, func(n int) []byte { return []byte("c0\n" + strings.Repeat("[", n) + strings.Repeat("]", n)) }},
		{"cte:nested-maps", codec.CTE, 100, func(n int) []byte {
			return []byte("c0\n" + strings.Repeat("{\"a\"=", n) + "1" + strings.Repeat("}", n))
		}},
		{"cte:one-long-string", codec.CTE, 10000, t("\"", "a", "\"")},
		{"cte:string-of-escapes", codec.CTE, 2000, t("\"", "\\n", "\"")},
		{"cte:string-of-codepoint-escapes", codec.CTE, 2000, t("\"", "\\[41]", "\"")},
		{"cte:long-comment", codec.CTE, 10000, t("/*", "c", "*/ 1")},
		{"cte:many-line-comments", codec.CTE, 20, t("[", "//c\n", "]")},
		{"cte:verbatim-string", codec.CTE, 10000, t("\"\\.ZZ ", "a", "ZZ\"")},
		{"cte:u8-array-elements", codec.CTE, 2000, t("@u8[", "7 ", "]")},
		{"cte:map-with-many-entries", codec.CTE, 500, func(n int) []byte {
			var sb strings.Builder
			sb.WriteString("c0\n{")
			for i := 0; i < n; i++ {
				fmt.Fprintf(&sb, "%d=1 ", i)
			}
			sb.WriteString("}")
			return []byte(sb.String())
		}},
		{"cte:whitespace-run", codec.CTE, 10000, t("[", " ", "1]")},
		{"cte:many-short-strings", codec.CTE, 1000, t("[", "\"abc\" ", "]")},
	}
}

func c08FamilyB(c *fx.Ctx) {
	for _, sh := range c08Shapes() {
		for _, dec := range c08Decoders(sh.f)[:3] {
			if !c.Take() {
				continue
			}
			c.Checkpoint()
			cfg := configuration.New()
			cfg.Rules.MaxContainerDepth = 1 << 20
			cfg.Rules.MaxObjectCount = 1 << 40
			cfg.Rules.MaxMarkerCount = 1 << 30
			cfg.Rules.MaxLocalReferenceCount = 1 << 30
			var ms [4]c08Measure
			var lens [4]int
			docs := make([][]byte, 4)
			for i := 0; i < 4; i++ {
				docs[i] = sh.gen(sh.n0 << uint(i))
				lens[i] = len(docs[i])
			}
			series := func(reps int) [4]c08Measure {
				var out [4]c08Measure
				for i := 0; i < 4; i++ {
					n := sh.n0 << uint(i)
					doc := docs[i]
					c.TraceInput(func() string { return fmt.Sprintf("growth %s n=%d %s", sh.name, n, dec.name) })
					dec.run(doc, cfg) // warm-up
					best := c08Measure{cpu: time.Hour}
					for r := 0; r < reps; r++ {
						m := measureAlloc(func() { dec.run(doc, cfg) })
						if m.cpu < best.cpu {
							best = m
						}
					}
					out[i] = best
					c.Add("evaluations", 1)
				}
				return out
			}
			superlinearTime := func(m [4]c08Measure) bool {
				// CPU time (min over repetitions) with a 3x margin over linear, on the whole range and on both upper doublings
				return m[3].cpu > 400*time.Millisecond && m[3].cpu > 24*m[0].cpu && 2*m[3].cpu > 5*m[2].cpu && 2*m[2].cpu > 5*m[1].cpu
			}
			ms = series(3)
			timeFlag := superlinearTime(ms)
			for attempt := 0; timeFlag && attempt < 2; attempt++ {
				// a timing verdict must reproduce: measure the whole series again (more repetitions) and keep the minima
				again := series(5)
				for i := range ms {
					if again[i].cpu < ms[i].cpu {
						ms[i].cpu = again[i].cpu
					}
				}
				timeFlag = superlinearTime(again) && superlinearTime(ms)
			}
			c.Add("growth_cases", 1)
			w := c08Witness{Family: "growth", Shape: sh.name, N: sh.n0, Config: dec.name}
			desc := fmt.Sprintf("%s via %s at n=%d,%d,%d,%d (document bytes %v): mallocs %d,%d,%d,%d; bytes allocated %d,%d,%d,%d; time %v,%v,%v,%v", sh.name, dec.name, sh.n0, sh.n0*2, sh.n0*4, sh.n0*8, lens,
				ms[0].mallocs, ms[1].mallocs, ms[2].mallocs, ms[3].mallocs, ms[0].alloc, ms[1].alloc, ms[2].alloc, ms[3].alloc, ms[0].cpu, ms[1].cpu, ms[2].cpu, ms[3].cpu)
			// deciding oracle: deterministic work counters at 8n are at most ~linear multiples of those at n (8x; 12x allowed) plus a constant
			if ms[3].mallocs > 12*ms[0].mallocs+20000 {
				c.Violation(fmt.Sprintf("time:superlinear-allocation-count:%s:%s", sh.name, dec.name), "heap objects allocated grow faster than linearly: "+desc, w)
			} else if ms[3].alloc > 12*ms[0].alloc+(4<<20) {
				c.Violation(fmt.Sprintf("time:superlinear-bytes-allocated:%s:%s", sh.name, dec.name), "bytes allocated grow faster than linearly: "+desc, w)
			} else if timeFlag {
				// supplementary: CPU time with a 3x margin over linear, confirmed on two consecutive doublings and reproduced twice
				c.Violation(fmt.Sprintf("time:superlinear-time:%s:%s", sh.name, dec.name), "decoding time grows faster than linearly: "+desc, w)
			}
			// memory bound at the largest size
			if bound := uint64(4<<20) + 4096*uint64(lens[3]); ms[3].alloc > bound {
				c.Violation(fmt.Sprintf("memory:per-byte-bound:%s:%s", sh.name, dec.name), fmt.Sprintf("decoding allocates more than 4 MiB + 4096 bytes per document byte (%d > %d): %s", ms[3].alloc, bound, desc), w)
			}
			c.Distinct("nontrivial", "B|"+sh.name+dec.name)
			if c.Index()%5 == 0 {
				c.Sample(desc)
			}
		}
	}
}

func init() {
	register(&fx.Check{
		ID:           "C08",
		Level:        "exploration",
		StallSeconds: 120,
		MemLimitKB:   6 * 1024 * 1024,
		Workers:      16,
		Rule: "(A) every length-carrying field of CBE (chunk length of all 19 array kinds, a second chunk, media-type length, marker/reference/record/record-type identifier lengths, variable-length integer byte counts, version, custom type code) × declared value in {2^10, 2^16, 2^20, 2^24, 2^30-1, 2^31-1, 2^32, 2^40, 2^62, 2^64-1} (also shifted into the chunk-header position) × payload of 0, 1, 16 bytes × MaxArraySizeBytes in {1 KiB, 1 MiB, default} × 4 decode paths (decoder and unmarshaler, rules on/off): bytes allocated by one decode (runtime.MemStats.TotalAlloc, after a warm-up) must not exceed 2 MiB + 4096 bytes per document byte; a worker killed by the address-space limit is a violation pinned to its document; " +
			"(B) 25 document shapes (many tiny tokens, nesting, long strings, strings delivered in 1-byte chunks, escapes, comments, verbatim strings, array elements, map keys, markers, padding, whitespace) at sizes n, 2n, 4n, 8n through 3 decode paths: deterministic work counters (heap objects and bytes allocated) at 8n must be at most 12x those at n plus a constant; process CPU time (min over repetitions, reproduced on two further series) is a supplementary oracle with a 3x margin over linear confirmed on two consecutive doublings; distinct_nontrivial = (field, declared length) and (shape, path) units",
		Assumptions: []string{"running time is not a state predicate: the deciding oracle for 'roughly linear' is the growth of deterministic allocation counters; CPU time only counts with a 3x margin", "single-goroutine decoding makes MemStats deltas deterministic (GC forced before each measurement)"},
		TrustedBase: []string{"runtime.MemStats"},
		Guards:      map[string]int64{"length_field_cases": 5000, "growth_cases": 60},
		Run: func(c *fx.Ctx) {
			c08FamilyA(c)
			c08FamilyB(c)
		},
		Replay: func(raw json.RawMessage) string {
			var w c08Witness
			if err := json.Unmarshal(raw, &w); err != nil {
				return err.Error()
			}
			if w.Family == "length-field" {
				cfg := configuration.New()
				dec := c08Decoders(codec.CBE)[1]
				dec.run(w.Doc, cfg)
				m := measureAlloc(func() { dec.run(w.Doc, cfg) })
				if bound := uint64(2<<20) + 4096*uint64(len(w.Doc)); m.alloc > bound {
					return fmt.Sprintf("allocates %d bytes (bound %d)", m.alloc, bound)
				}
				return ""
			}
			return "NOT-REPLAYABLE: growth witnesses name the shape; re-run `scripts/check.sh C08 quick`"
		},
	})
}
