package checks

import (
	"fmt"
	"math/big"
	"unicode/utf8"

	compact_time "github.com/kstenerud/go-compact-time"
	"github.com/kstenerud/go-concise-encoding/ce/events"
	"verif/harness/internal/ev"
	"verif/harness/internal/fx"
	"verif/harness/internal/rulesmodel"
)

// keyForm is one way of delivering one key value.
type keyForm struct {
	form  string // discriminator used in signatures
	value string // canonical value (type class + value) — equal strings denote equal keys
	seq   []ev.E
	dc    bool // comparison with other keys of the same class is not fixed by the statement (-0)
}

func pow2(k uint) *big.Int { return new(big.Int).Lsh(big.NewInt(1), k) }

func c12IntValues() []*big.Int {
	one := big.NewInt(1)
	vals := []*big.Int{big.NewInt(0), big.NewInt(1), big.NewInt(5), big.NewInt(100), big.NewInt(101), big.NewInt(255), big.NewInt(256), big.NewInt(65535),
		new(big.Int).Sub(pow2(32), one), pow2(32), new(big.Int).Sub(pow2(63), one), pow2(63), new(big.Int).Sub(pow2(64), one), pow2(64), pow2(70)}
	out := append([]*big.Int{}, vals...)
	for _, v := range vals[1:] {
		out = append(out, new(big.Int).Neg(v))
	}
	return out
}

func intForms(v *big.Int) []keyForm {
	var out []keyForm
	val := "int:" + v.String()
	if v.Sign() >= 0 && v.IsUint64() {
		out = append(out, keyForm{"pint", val, []ev.E{ev.EPInt(v.Uint64())}, false})
	}
	if v.Sign() < 0 && new(big.Int).Neg(v).IsUint64() {
		out = append(out, keyForm{"nint", val, []ev.E{ev.ENInt(new(big.Int).Neg(v).Uint64())}, false})
	}
	if v.IsInt64() {
		out = append(out, keyForm{"int", val, []ev.E{ev.EInt(v.Int64())}, false})
	}
	out = append(out, keyForm{"bigint", val, []ev.E{ev.EBigInt(new(big.Int).Set(v))}, false})
	return out
}

func c12Keys(thorough bool) []keyForm {
	var out []keyForm
	for _, v := range c12IntValues() {
		out = append(out, intForms(v)...)
	}
	out = append(out, keyForm{"nint", "int:-0", []ev.E{ev.ENInt(0)}, true})
	specs := arrSpecs()
	for _, sp := range specs {
		if sp.at != events.ArrayTypeString && sp.at != events.ArrayTypeResourceID {
			continue
		}
		cls := "str:"
		if sp.at == events.ArrayTypeResourceID {
			cls = "rid:"
		}
		for _, txt := range []string{"", "a", "b", "é", "ab", "éΩ", "ΩΩ"} {
			b := []byte(txt)
			out = append(out, keyForm{"arr", cls + txt, []ev.E{ev.EArr(sp.at, uint64(len(b)), b)}, false})
			out = append(out, keyForm{"sarr", cls + txt, []ev.E{ev.ESArr(sp.at, txt)}, false})
			chunkedForms(sp, b, len(b), 1<<30, func(id int, seq []ev.E) {
				// only chunkings whose chunks end on character boundaries are valid keys (C11)
				var acc []byte
				for i, e := range seq {
					if e.K == ev.Data {
						acc = append(acc, e.Data...)
					}
					if (e.K == ev.Chunk && i > 0 || i == len(seq)-1) && !utf8.Valid(acc) {
						return
					}
				}
				out = append(out, keyForm{"chunked", cls + txt, append([]ev.E{sp.begin}, seq...), false})
			})
			// closed by an empty final chunk
			if len(b) > 0 {
				out = append(out, keyForm{"chunked", cls + txt, []ev.E{sp.begin, ev.EChunk(uint64(len(b)), true), ev.EData(b), ev.EChunk(0, false)}, false})
			}
		}
	}
	uidB := []byte{15, 14, 13, 12, 11, 10, 9, 8, 7, 6, 5, 4, 3, 2, 1, 0}
	out = append(out, keyForm{"uid", "uid:A", []ev.E{ev.EUID(uidA)}, false}, keyForm{"uid", "uid:B", []ev.E{ev.EUID(uidB)}, false})
	out = append(out, keyForm{"true", "bool:true", []ev.E{ev.ETrue()}, false}, keyForm{"boolean", "bool:true", []ev.E{ev.EBool(true)}, false},
		keyForm{"false", "bool:false", []ev.E{ev.EFalse()}, false}, keyForm{"boolean", "bool:false", []ev.E{ev.EBool(false)}, false})
	out = append(out, keyForm{"time", "time:A", []ev.E{ev.ETime(compact_time.NewDate(2000, 1, 15))}, false},
		keyForm{"time", "time:B", []ev.E{ev.ETime(compact_time.NewDate(2000, 1, 16))}, false},
		keyForm{"time", "time:C", []ev.E{ev.ETime(compact_time.NewTime(1, 2, 3, 4, compact_time.TZAtUTC()))}, false})
	return out
}

func c12Warmups() [][]ev.E {
	return [][]ev.E{
		{ev.EBD(), ev.EV(0), ev.EMap(), ev.EStr("a"), ev.EPInt(1), ev.EPInt(1), ev.ENull(), ev.EABegin(events.ArrayTypeString), ev.EChunk(1, false), ev.EData([]byte("b")), ev.ENull(), ev.EEnd(), ev.EED()},
		{ev.EBD(), ev.EV(0), ev.EMap(), ev.EStr("a"), ev.EPInt(1), ev.EABegin(events.ArrayTypeString), ev.EChunk(5, true), ev.EData([]byte("hel")), ev.EData([]byte("lo")), ev.EChunk(3, false), ev.EData([]byte("a"))},
		{ev.EBD(), ev.EV(0), ev.EMap(), ev.EABegin(events.ArrayTypeResourceID), ev.EChunk(3, true), ev.EData([]byte("a:b"))},
		{ev.EBD(), ev.EV(0), ev.EList(), ev.EMap(), ev.EStr("a"), ev.EPInt(1), ev.EPInt(1), ev.ENull(), ev.ENInt(1), ev.ENull(), ev.EUID(uidA), ev.ETrue(), ev.EMap()},
	}
}

func c12Run(c *fx.Ctx) {
	keys := c12Keys(c.Thorough())
	mcfg := rulesmodel.Config{}
	type container struct {
		name string
		wrap func(ks ...keyForm) []ev.E
	}
	conts := []container{
		{"map", func(ks ...keyForm) []ev.E {
			s := []ev.E{ev.EBD(), ev.EV(0), ev.EMap()}
			for _, k := range ks {
				s = append(s, k.seq...)
				s = append(s, ev.ENull())
			}
			return append(s, ev.EEnd(), ev.EED())
		}},
		{"rectype", func(ks ...keyForm) []ev.E {
			s := []ev.E{ev.EBD(), ev.EV(0), ev.ERecType("x")}
			for _, k := range ks {
				s = append(s, k.seq...)
			}
			return append(s, ev.EEnd(), ev.ENull(), ev.EED())
		}},
		{"marked-map", func(ks ...keyForm) []ev.E { // keys behind markers: the marked value itself is the key
			s := []ev.E{ev.EBD(), ev.EV(0), ev.EMap()}
			for i, k := range ks {
				s = append(s, ev.EMarker(fmt.Sprintf("m%d", i)))
				s = append(s, k.seq...)
				s = append(s, ev.ENull())
			}
			return append(s, ev.EEnd(), ev.EED())
		}},
	}
	var warmup []ev.E // non-nil: the validator is reused after these events and Reset()
	warmTag := ""
	run := func(ct container, ks ...keyForm) {
		seq := ct.wrap(ks...)
		forms := ""
		collide := false
		for i, k := range ks {
			for _, o := range ks[:i] {
				if o.value == k.value && !o.dc && !k.dc && !collide {
					collide = true
					forms = o.form + "/" + k.form // the first colliding pair identifies the case
				}
			}
		}
		if !collide {
			forms = "no-collision"
		}
		r := lockstepW(c, warmup, seq, nil, mcfg, warmTag, func(e ev.E, ctx string) string { return fmt.Sprintf("%s:%s@%s", forms, e.K.String(), ct.name) })
		c.Add("evaluations", 1)
		if collide {
			c.Add("colliding_cases", 1)
			c.Distinct("nontrivial", ev.Join(seq))
		} else {
			c.Add("noncolliding_cases", 1)
		}
		// independent of the model: the plain oracle of the statement
		dc := false
		for _, k := range ks {
			if k.dc {
				dc = true
			}
		}
		if !dc {
			if collide && r.accepted {
				c.Violation(fmt.Sprintf("%sduplicate-accepted:%s@%s", warmTag, forms, ct.name), fmt.Sprintf("two keys denoting the same value are both accepted: [%s]", ev.Join(seq)), rwitness{Warmup: warmup, Events: seq})
			}
			if !collide && !r.accepted {
				c.Violation(fmt.Sprintf("%sdistinct-rejected:%s@%s", warmTag, forms, ct.name), fmt.Sprintf("keys denoting different values rejected (%v): [%s]", r.err, ev.Join(seq)), rwitness{Warmup: warmup, Events: seq})
			}
		}
		if c.Index()%997 == 0 {
			c.Sample(ev.Join(seq))
		}
	}
	for _, ct := range conts {
		for i := range keys {
			for j := range keys {
				if !c.Take() {
					continue
				}
				run(ct, keys[i], keys[j])
			}
		}
	}
	// the same pairs on a reused validator: after a complete document, and after documents abandoned inside a chunked
	// string key / resource-ID key / a map with recorded keys, each followed by Reset()
	for wi, w := range c12Warmups() {
		warmup, warmTag = w, []string{"after-complete-doc-and-reset:", "after-doc-aborted-in-string-key:", "after-doc-aborted-in-rid-key:", "after-doc-aborted-in-map:"}[wi]
		for _, ct := range conts {
			for i := range keys {
				for j := range keys {
					if (i+j)%3 != wi%3 && !c.Thorough() {
						continue // quick tier: a third of the pairs per warmup
					}
					if !c.Take() {
						continue
					}
					c.Add("reused_validator_cases", 1)
					run(ct, keys[i], keys[j])
				}
			}
		}
	}
	warmup, warmTag = nil, ""
	// triples over a sub-alphabet (every third key form)
	var sub []keyForm
	for i, k := range keys {
		if i%7 == 0 || k.form == "nint" {
			sub = append(sub, k)
		}
	}
	if !c.Thorough() && len(sub) > 24 {
		sub = sub[:24]
	}
	for _, ct := range conts[:2] {
		for i := range sub {
			for j := range sub {
				for k := range sub {
					if !c.Take() {
						continue
					}
					run(ct, sub[i], sub[j], sub[k])
				}
			}
		}
	}
}

func init() {
	register(&fx.Check{
		ID:    "C12",
		Level: "model_checking",
		Rule: "all ordered pairs (and triples over a sub-alphabet) of key forms — 31 integer values × every event form able to carry them (pint/nint/int/bigint), strings and resource IDs whole/stringlike/every chunking×split, UIDs, booleans in both forms, times — " +
			"placed in a map, a record type and behind markers; each sequence runs event by event on a fresh real validator in lock-step with the reference automaton and is also judged by the plain oracle 'rejected iff same class and same value'; distinct_nontrivial = distinct colliding sequences",
		Assumptions: []string{"-0 versus 0 is a don't-care", "keys reached through references are not compared", "times collide only when spelled identically"},
		TrustedBase: []string{"harness reference automaton internal/rulesmodel", "math/big for integer identity"},
		Guards:      map[string]int64{"colliding_cases": 500, "noncolliding_cases": 500},
		Run:         c12Run,
		Replay:      replayRules(true, false, rulesmodel.Config{}),
	})
}
