package nf

import (
	"fmt"
	"sort"
	"strings"
)

// Node is a parsed normal-form token tree (used for the transformations of C05/C06: records -> maps, references
// resolved, Go maps compared without order).
type Node struct {
	Tok    string
	Kids   []*Node
	Marker string // marker id attached to this value ("" if none)
}

func isOpen(tok string) bool {
	return tok == "list" || tok == "map" || tok == "edge" || tok == "node" || strings.HasPrefix(tok, "rec:") || strings.HasPrefix(tok, "rt:")
}

// Parse builds the forest of top-level items (record types followed by the top-level value).
func Parse(tokens []string) ([]*Node, error) {
	var stack []*Node
	root := &Node{Tok: "root"}
	cur := root
	pendingMarker := ""
	for i, t := range tokens {
		switch {
		case t == "end":
			if len(stack) == 0 {
				return nil, fmt.Errorf("token %d: end without container", i)
			}
			cur = stack[len(stack)-1]
			stack = stack[:len(stack)-1]
		case strings.HasPrefix(t, "mark:"):
			pendingMarker = t[5:]
		case isOpen(t):
			n := &Node{Tok: t, Marker: pendingMarker}
			pendingMarker = ""
			cur.Kids = append(cur.Kids, n)
			stack = append(stack, cur)
			cur = n
		default:
			cur.Kids = append(cur.Kids, &Node{Tok: t, Marker: pendingMarker})
			pendingMarker = ""
		}
	}
	if len(stack) != 0 {
		return nil, fmt.Errorf("unclosed container")
	}
	return root.Kids, nil
}

type Transform struct {
	RecordsToMaps bool
	ResolveRefs   bool
	DropMarkers   bool
	SortMaps      bool
	DropPadding   bool
	DropComments  bool
}

// HasCycle reports whether some reference points into an enclosing marked value (a cyclic document).
func HasCycle(tokens []string) bool {
	items, err := Parse(tokens)
	if err != nil {
		return false
	}
	markers := map[string]*Node{}
	var collect func(n *Node)
	collect = func(n *Node) {
		if n.Marker != "" {
			markers[n.Marker] = n
		}
		for _, k := range n.Kids {
			collect(k)
		}
	}
	for _, it := range items {
		collect(it)
	}
	var visit func(n *Node, open map[string]bool) bool
	visit = func(n *Node, open map[string]bool) bool {
		if strings.HasPrefix(n.Tok, "ref:") {
			id := n.Tok[4:]
			if open[id] {
				return true
			}
			if t, ok := markers[id]; ok {
				open[id] = true
				r := visit(t, open)
				delete(open, id)
				return r
			}
			return false
		}
		if n.Marker != "" {
			if open[n.Marker] {
				return false
			}
			open[n.Marker] = true
			defer delete(open, n.Marker)
		}
		for _, k := range n.Kids {
			if visit(k, open) {
				return true
			}
		}
		return false
	}
	for _, it := range items {
		if visit(it, map[string]bool{}) {
			return true
		}
	}
	return false
}

// Apply returns the transformed token list.
func Apply(tokens []string, tr Transform) ([]string, error) {
	items, err := Parse(tokens)
	if err != nil {
		return nil, err
	}
	recTypes := map[string][]*Node{}
	markers := map[string]*Node{}
	var collect func(n *Node)
	collect = func(n *Node) {
		if n.Marker != "" {
			markers[n.Marker] = n
		}
		for _, k := range n.Kids {
			collect(k)
		}
	}
	for _, it := range items {
		collect(it)
	}
	var out []string
	var emit func(n *Node, open map[string]bool) []string
	emit = func(n *Node, open map[string]bool) []string {
		var res []string
		if n.Marker != "" && !tr.DropMarkers {
			res = append(res, "mark:"+n.Marker)
		}
		switch {
		case n.Tok == "pad" && tr.DropPadding:
			return nil
		case strings.HasPrefix(n.Tok, "com(") && tr.DropComments:
			return nil
		case strings.HasPrefix(n.Tok, "ref:") && tr.ResolveRefs:
			id := n.Tok[4:]
			t, ok := markers[id]
			if !ok || open[id] {
				return append(res, "cycle:"+id)
			}
			open[id] = true
			saved := t.Marker
			t.Marker = ""
			r := emit(t, open)
			t.Marker = saved
			delete(open, id)
			return append(res, r...)
		case strings.HasPrefix(n.Tok, "rec:") && tr.RecordsToMaps:
			keys := recTypes[n.Tok[4:]]
			res = append(res, "map")
			var entries [][]string
			vi := 0
			for _, k := range n.Kids {
				kv := emit(k, open)
				if kv == nil {
					continue // padding / comment
				}
				var ent []string
				if vi < len(keys) {
					ent = append(ent, emit(keys[vi], open)...)
				} else {
					ent = append(ent, "?missing-key")
				}
				ent = append(ent, kv...)
				entries = append(entries, ent)
				vi++
			}
			if tr.SortMaps {
				sort.Slice(entries, func(i, j int) bool { return strings.Join(entries[i], "\x00") < strings.Join(entries[j], "\x00") })
			}
			for _, e := range entries {
				res = append(res, e...)
			}
			return append(res, "end")
		case n.Tok == "map":
			res = append(res, "map")
			var entries [][]string
			var cur []string
			cnt := 0
			for _, k := range n.Kids {
				kv := emit(k, open)
				if kv == nil {
					continue
				}
				cur = append(cur, kv...)
				cnt++
				if cnt%2 == 0 {
					entries = append(entries, cur)
					cur = nil
				}
			}
			if cur != nil {
				entries = append(entries, cur)
			}
			if tr.SortMaps {
				sort.Slice(entries, func(i, j int) bool { return strings.Join(entries[i], "\x00") < strings.Join(entries[j], "\x00") })
			}
			for _, e := range entries {
				res = append(res, e...)
			}
			return append(res, "end")
		case isOpen(n.Tok):
			res = append(res, n.Tok)
			for _, k := range n.Kids {
				res = append(res, emit(k, open)...)
			}
			return append(res, "end")
		}
		return append(res, n.Tok)
	}
	for _, it := range items {
		if strings.HasPrefix(it.Tok, "rt:") {
			var keys []*Node
			for _, k := range it.Kids {
				if k.Tok == "pad" || strings.HasPrefix(k.Tok, "com(") {
					continue
				}
				keys = append(keys, k)
			}
			recTypes[it.Tok[3:]] = keys
			if tr.RecordsToMaps {
				continue
			}
		}
		out = append(out, emit(it, map[string]bool{})...)
	}
	return out, nil
}
