// Package nf computes the normal form of an event stream: the notion of "carrying the same data" of C01-C03/C06/C22/C23.
package nf

import (
	"encoding/hex"
	"fmt"
	"math"
	"math/big"
	"strings"

	"github.com/cockroachdb/apd/v2"
	compact_float "github.com/kstenerud/go-compact-float"
	compact_time "github.com/kstenerud/go-compact-time"
	"github.com/kstenerud/go-concise-encoding/ce/events"
	"verif/harness/internal/ev"
)

type Options struct {
	DropComments bool
	DropPadding  bool
}

// Of returns the normal form as a token list, or an error if the stream is structurally broken (unfinished array).
func Of(es []ev.E, opt Options) ([]string, error) {
	var out []string
	type acc struct {
		kind   string
		at     events.ArrayType
		prefix string
		data   []byte
		elems  uint64
		remain uint64
		more   bool
		open   bool
	}
	var a *acc
	finish := func() {
		out = append(out, arrayToken(a.kind, a.at, a.prefix, a.elems, a.data))
		a = nil
	}
	for i, e := range es {
		if a != nil {
			switch e.K {
			case ev.Chunk:
				if a.open {
					return out, fmt.Errorf("event %d: chunk header inside open chunk", i)
				}
				a.elems += e.U
				nb := elemBytes(a.at, e.U)
				a.more = e.B
				if nb == 0 {
					if !e.B {
						finish()
					}
					continue
				}
				a.open = true
				a.remain = nb
			case ev.Data:
				if !a.open || uint64(len(e.Data)) > a.remain {
					return out, fmt.Errorf("event %d: array data outside chunk / too long", i)
				}
				a.data = append(a.data, e.Data...)
				a.remain -= uint64(len(e.Data))
				if a.remain == 0 {
					a.open = false
					if !a.more {
						finish()
					}
				}
			case ev.Comment, ev.Padding:
				// tolerated between chunks; carried like anywhere else
				if e.K == ev.Comment && !opt.DropComments {
					out = append(out, fmt.Sprintf("com(%v,%q)", e.B, e.Data))
				}
				if e.K == ev.Padding && !opt.DropPadding {
					out = append(out, "pad")
				}
			default:
				return out, fmt.Errorf("event %d: %s inside chunked array", i, e.K)
			}
			continue
		}
		switch e.K {
		case ev.BD, ev.ED, ev.Version:
		case ev.Padding:
			if !opt.DropPadding {
				out = append(out, "pad")
			}
		case ev.Comment:
			if !opt.DropComments {
				out = append(out, fmt.Sprintf("com(%v,%q)", e.B, e.Data))
			}
		case ev.Null:
			out = append(out, "null")
		case ev.Boolean:
			out = append(out, fmt.Sprintf("b:%v", e.B))
		case ev.True:
			out = append(out, "b:true")
		case ev.False:
			out = append(out, "b:false")
		case ev.PInt, ev.NInt, ev.Int, ev.BigInt, ev.Float, ev.BigFloat, ev.DFloat, ev.BigDecimal, ev.NaN:
			out = append(out, Num(e))
		case ev.UID:
			out = append(out, "uid:"+hex.EncodeToString(e.Data))
		case ev.Time:
			out = append(out, "t:"+TimeNF(e.T))
		case ev.List:
			out = append(out, "list")
		case ev.Map:
			out = append(out, "map")
		case ev.Edge:
			out = append(out, "edge")
		case ev.Node:
			out = append(out, "node")
		case ev.End:
			out = append(out, "end")
		case ev.RecordType:
			out = append(out, "rt:"+string(e.Data))
		case ev.Record:
			out = append(out, "rec:"+string(e.Data))
		case ev.Marker:
			out = append(out, "mark:"+string(e.Data))
		case ev.Ref:
			out = append(out, "ref:"+string(e.Data))
		case ev.Array:
			out = append(out, arrayToken("arr", e.AT, "", e.U, e.Data))
		case ev.StrArray:
			out = append(out, arrayToken("arr", e.AT, "", uint64(len(e.Data)), e.Data))
		case ev.Media:
			out = append(out, arrayToken("media", events.ArrayTypeMedia, e.S, uint64(len(e.Data)), e.Data))
		case ev.CustomBin:
			out = append(out, arrayToken("custom", events.ArrayTypeCustomBinary, fmt.Sprint(e.U), uint64(len(e.Data)), e.Data))
		case ev.CustomText:
			out = append(out, arrayToken("custom", events.ArrayTypeCustomText, fmt.Sprint(e.U), uint64(len(e.Data)), e.Data))
		case ev.ArrayBegin:
			a = &acc{kind: "arr", at: e.AT}
		case ev.MediaBegin:
			a = &acc{kind: "media", at: events.ArrayTypeMedia, prefix: e.S}
		case ev.CustomBegin:
			a = &acc{kind: "custom", at: e.AT, prefix: fmt.Sprint(e.U)}
		case ev.Chunk, ev.Data:
			return out, fmt.Errorf("event %d: %s outside array", i, e.K)
		case ev.Error:
			out = append(out, "error")
		default:
			return out, fmt.Errorf("event %d: unknown kind", i)
		}
	}
	if a != nil {
		return out, fmt.Errorf("unfinished chunked array")
	}
	return out, nil
}

func elemBytes(at events.ArrayType, n uint64) uint64 {
	bits := uint64(at.ElementSize())
	if bits == 1 {
		return (n + 7) / 8
	}
	return n * (bits / 8)
}

func arrayToken(kind string, at events.ArrayType, prefix string, elems uint64, data []byte) string {
	switch at {
	case events.ArrayTypeString, events.ArrayTypeResourceID, events.ArrayTypeReferenceRemote, events.ArrayTypeCustomText,
		events.ArrayTypeCustomBinary, events.ArrayTypeMedia, events.ArrayTypeUint8, events.ArrayTypeInt8:
		elems = uint64(len(data))
	}
	return fmt.Sprintf("%s:%s:%q:%d:%s", kind, strings.ReplaceAll(at.String(), " ", ""), prefix, elems, hex.EncodeToString(data))
}

// Num returns the canonical token of a numeric event: exact rational value, or a special.
func Num(e ev.E) string {
	switch e.K {
	case ev.PInt:
		return "n:" + new(big.Int).SetUint64(e.U).String()
	case ev.NInt:
		if e.U == 0 {
			return "n:-0"
		}
		return "n:-" + new(big.Int).SetUint64(e.U).String()
	case ev.Int:
		return "n:" + big.NewInt(e.I).String()
	case ev.BigInt:
		if e.Big == nil {
			return "null"
		}
		return "n:" + e.Big.String()
	case ev.NaN:
		if e.B {
			return "nan:s"
		}
		return "nan:q"
	case ev.Float:
		return floatNF(e.F)
	case ev.BigFloat:
		if e.BF == nil {
			return "null"
		}
		if e.BF.IsInf() {
			if e.BF.Signbit() {
				return "n:-inf"
			}
			return "n:+inf"
		}
		if e.BF.Sign() == 0 {
			if e.BF.Signbit() {
				return "n:-0"
			}
			return "n:0"
		}
		r, _ := e.BF.Rat(nil)
		if _, acc := e.BF.Float64(); acc != big.Exact {
			// no CE encoding holds a binary float wider than float64 exactly: both codecs convert it to a decimal of
			// the precision's worth of digits (documented rounding). Compared with that tolerance (see TokensEqual).
			return fmt.Sprintf("n~%d:%s", e.BF.Prec(), strings.TrimPrefix(ratNF(r), "n:"))
		}
		return ratNF(r)
	case ev.DFloat:
		return dfloatNF(e.DF)
	case ev.BigDecimal:
		if e.BDec == nil {
			return "null"
		}
		return apdNF(e.BDec)
	}
	return "?num"
}

func floatNF(f float64) string {
	switch {
	case f != f:
		if math.Float64bits(f)&(1<<51) != 0 {
			return "nan:q"
		}
		return "nan:s"
	case math.IsInf(f, 1):
		return "n:+inf"
	case math.IsInf(f, -1):
		return "n:-inf"
	case f == 0:
		if math.Signbit(f) {
			return "n:-0"
		}
		return "n:0"
	}
	r := new(big.Rat).SetFloat64(f)
	return ratNF(r)
}

func ratNF(r *big.Rat) string {
	if r.IsInt() {
		return "n:" + r.Num().String()
	}
	return "n:" + r.String()
}

func dfloatNF(d compact_float.DFloat) string {
	switch {
	case d.IsNan():
		if d.IsSignalingNan() {
			return "nan:s"
		}
		return "nan:q"
	case d.IsNegativeInfinity():
		return "n:-inf"
	case d.IsInfinity():
		return "n:+inf"
	case d.IsNegativeZero():
		return "n:-0"
	case d.IsZero():
		return "n:0"
	}
	return decNF(big.NewInt(d.Coefficient), int64(d.Exponent))
}

func apdNF(d *apd.Decimal) string {
	switch d.Form {
	case apd.NaN:
		return "nan:q"
	case apd.NaNSignaling:
		return "nan:s"
	case apd.Infinite:
		if d.Negative {
			return "n:-inf"
		}
		return "n:+inf"
	}
	if d.Coeff.Sign() == 0 {
		if d.Negative {
			return "n:-0"
		}
		return "n:0"
	}
	c := new(big.Int).Set(&d.Coeff)
	if d.Negative {
		c.Neg(c)
	}
	return decNF(c, int64(d.Exponent))
}

var ten = big.NewInt(10)

// decNF: coefficient × 10^exp as an exact rational when the exponent is moderate, else a structural normal form.
func decNF(coef *big.Int, exp int64) string {
	if coef.Sign() == 0 {
		return "n:0"
	}
	c := new(big.Int).Set(coef)
	// strip trailing zeros
	q, m := new(big.Int), new(big.Int)
	for {
		q.QuoRem(c, ten, m)
		if m.Sign() != 0 {
			break
		}
		c.Set(q)
		exp++
	}
	if exp >= -600 && exp <= 600 {
		r := new(big.Rat).SetInt(c)
		p := new(big.Int).Exp(ten, big.NewInt(abs64(exp)), nil)
		if exp >= 0 {
			r.Mul(r, new(big.Rat).SetInt(p))
		} else {
			r.Quo(r, new(big.Rat).SetInt(p))
		}
		return ratNF(r)
	}
	return fmt.Sprintf("n:%se%d", c.String(), exp)
}

func abs64(v int64) int64 {
	if v < 0 {
		return -v
	}
	return v
}

// TimeNF canonicalises a compact time: field tuple with UTC spellings identified.
func TimeNF(t compact_time.Time) string {
	tz := ""
	if t.Type != compact_time.TimeTypeDate {
		z := t.Timezone
		switch z.Type {
		case compact_time.TimezoneTypeUTC:
			tz = "UTC"
		case compact_time.TimezoneTypeUnset:
			tz = "UTC"
		case compact_time.TimezoneTypeLocal:
			tz = "Local"
		case compact_time.TimezoneTypeAreaLocation:
			switch z.LongAreaLocation {
			case "Etc/UTC", "Zero", "Z":
				tz = "UTC"
			case "Local", "L":
				tz = "Local"
			default:
				tz = "area:" + z.LongAreaLocation
			}
		case compact_time.TimezoneTypeLatitudeLongitude:
			tz = fmt.Sprintf("ll:%d/%d", z.LatitudeHundredths, z.LongitudeHundredths)
		case compact_time.TimezoneTypeUTCOffset:
			if z.MinutesOffsetFromUTC == 0 {
				tz = "UTC"
			} else {
				tz = fmt.Sprintf("off:%d", z.MinutesOffsetFromUTC)
			}
		}
	}
	switch t.Type {
	case compact_time.TimeTypeDate:
		return fmt.Sprintf("date:%d-%d-%d", t.Year, t.Month, t.Day)
	case compact_time.TimeTypeTime:
		return fmt.Sprintf("time:%d:%d:%d.%d/%s", t.Hour, t.Minute, t.Second, t.Nanosecond, tz)
	}
	return fmt.Sprintf("ts:%d-%d-%d/%d:%d:%d.%d/%s", t.Year, t.Month, t.Day, t.Hour, t.Minute, t.Second, t.Nanosecond, tz)
}

// TokensEqual: string equality, except that an inexact wide binary float (token n~prec:rat) equals any number within
// the relative tolerance of prec bits expressed in decimal digits (one digit of slack).
func TokensEqual(a, b string) bool {
	if a == b {
		return true
	}
	if !strings.HasPrefix(a, "n~") {
		if strings.HasPrefix(b, "n~") {
			return TokensEqual(b, a)
		}
		return false
	}
	var prec int
	rest := a[2:]
	i := strings.IndexByte(rest, ':')
	if i < 0 {
		return false
	}
	fmt.Sscanf(rest[:i], "%d", &prec)
	ra, ok1 := new(big.Rat).SetString(rest[i+1:])
	bs := b
	if strings.HasPrefix(b, "n~") {
		if j := strings.IndexByte(b, ':'); j > 0 {
			bs = "n:" + b[j+1:]
		}
	}
	if !strings.HasPrefix(bs, "n:") {
		return false
	}
	rb, ok2 := new(big.Rat).SetString(bs[2:])
	if !ok1 || !ok2 {
		return false
	}
	digits := int64(float64(prec)*0.30103) - 1
	if digits < 1 {
		digits = 1
	}
	diff := new(big.Rat).Sub(ra, rb)
	diff.Abs(diff)
	tol := new(big.Rat).Abs(ra)
	tol.Quo(tol, new(big.Rat).SetInt(new(big.Int).Exp(ten, big.NewInt(digits), nil)))
	return diff.Cmp(tol) <= 0
}

// Diff returns "" if a == b, else a description of the first difference.
func Diff(a, b []string) string {
	n := len(a)
	if len(b) < n {
		n = len(b)
	}
	for i := 0; i < n; i++ {
		if !TokensEqual(a[i], b[i]) {
			return fmt.Sprintf("token %d: %s  vs  %s", i, clip(a[i]), clip(b[i]))
		}
	}
	if len(a) != len(b) {
		if len(a) > len(b) {
			return fmt.Sprintf("second stream ends early; first continues with %s", clip(a[n]))
		}
		return fmt.Sprintf("first stream ends early; second continues with %s", clip(b[n]))
	}
	return ""
}

func clip(s string) string {
	if len(s) > 160 {
		return s[:160] + "…"
	}
	return s
}
