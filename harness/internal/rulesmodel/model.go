// Package rulesmodel is the reference pushdown automaton for the rules validator, written from the property texts
// C10/C11/C12/C13 (and the public CE specification), not from the implementation.
package rulesmodel

import (
	"fmt"
	"math/big"
	"sort"
	"strings"
	"unicode"
	"unicode/utf8"

	"github.com/kstenerud/go-concise-encoding/ce/events"
	"verif/harness/internal/ev"
)

type Verdict int

const (
	Accept Verdict = iota
	Reject
	Either // the property statement does not fix the verdict for this step (don't-care or inside a rejection window)
)

func (v Verdict) String() string { return [...]string{"accept", "reject", "either"}[v] }

type class int

const (
	clNull class = iota
	clKeyable
	clOther // non-null, non-keyable
	clUnknown
	clFloat // non-NaN float: keyable per the CE specification, not per this implementation: don't-care in key positions
)

type pos int

const (
	posAny pos = iota
	posKeyable
	posNonNull
)

type fkind int

const (
	fList fkind = iota
	fMap
	fRecType
	fRecord
	fEdge
	fNode
	fMarker
	fArray
)

type frame struct {
	kind   fkind
	n      int // completed children
	expect int // record arity
	keys   map[string]bool
	name   string // record type name / marker id
	con    pos    // marker: constraint inherited from the position it stands in
	doomed bool   // rectype: duplicate name, must be rejected by its end
	// array
	at        events.ArrayType
	inChunk   bool
	more      bool // current chunk announces more chunks
	remaining uint64
	content   []byte
	sawChunk  bool
	badUTF8   bool // content already contains a definitely invalid sequence
}

type Config struct {
	MaxIdentifierLength int
	// LaxMarkers turns every marker/reference consistency verdict (duplicate id, unresolved or type-mismatched
	// reference) into a don't-care: used by C10, whose statement does not cover them (C13 does).
	LaxMarkers bool
}

type Model struct {
	cfg      Config
	phase    int // 0 start, 1 after BD, 2 top level (before value), 3 after value, 4 ended
	stack    []*frame
	recTypes map[string]int
	markers  map[string]class // registered (completed) markers
	pending  map[string]pos   // forward references: strongest constraint seen
	dead     bool
	// Reason names the rule behind the most recent Reject verdict (used in violation signatures)
	Reason string
}

func New(cfg Config) *Model {
	if cfg.MaxIdentifierLength == 0 {
		cfg.MaxIdentifierLength = 1000
	}
	return &Model{cfg: cfg, recTypes: map[string]int{}, markers: map[string]class{}, pending: map[string]pos{}}
}

func (m *Model) top() *frame {
	if len(m.stack) == 0 {
		return nil
	}
	return m.stack[len(m.stack)-1]
}

// Complete reports whether the document is complete (ED accepted).
func (m *Model) Complete() bool { return m.phase == 4 }

// Depth of open frames (containers, markers, arrays)
func (m *Model) OpenFrames() int { return len(m.stack) }

// InArray reports whether the model is inside a chunked array.
func (m *Model) InArray() bool { f := m.top(); return f != nil && f.kind == fArray }

// Key returns a canonical string of the model state.
func (m *Model) Key() string {
	var sb strings.Builder
	fmt.Fprintf(&sb, "p%d|", m.phase)
	for _, f := range m.stack {
		fmt.Fprintf(&sb, "[%d,%d,%d,%q,%d,%v", f.kind, f.n, f.expect, f.name, f.con, f.doomed)
		if f.keys != nil {
			ks := make([]string, 0, len(f.keys))
			for k := range f.keys {
				ks = append(ks, k)
			}
			sort.Strings(ks)
			fmt.Fprintf(&sb, ",k%q", ks)
		}
		if f.kind == fArray {
			fmt.Fprintf(&sb, ",a%d,%v,%v,%d,%x,%v,%v", f.at, f.inChunk, f.more, f.remaining, f.content, f.sawChunk, f.badUTF8)
		}
		sb.WriteString("]")
	}
	rt := make([]string, 0, len(m.recTypes))
	for k, v := range m.recTypes {
		rt = append(rt, fmt.Sprintf("%q:%d", k, v))
	}
	sort.Strings(rt)
	mk := make([]string, 0, len(m.markers))
	for k, v := range m.markers {
		mk = append(mk, fmt.Sprintf("%q:%d", k, v))
	}
	sort.Strings(mk)
	pd := make([]string, 0, len(m.pending))
	for k, v := range m.pending {
		pd = append(pd, fmt.Sprintf("%q:%d", k, v))
	}
	sort.Strings(pd)
	fmt.Fprintf(&sb, "|rt%v|mk%v|pd%v", rt, mk, pd)
	return sb.String()
}

// position returns whether a value may start here and the constraint on it.
func (m *Model) position() (ok bool, con pos) {
	f := m.top()
	if f == nil {
		return m.phase == 2, posAny
	}
	switch f.kind {
	case fList:
		return true, posAny
	case fMap:
		if f.n%2 == 0 {
			return true, posKeyable
		}
		return true, posAny
	case fRecType:
		return true, posKeyable
	case fRecord:
		return f.n < f.expect, posAny
	case fEdge:
		switch f.n {
		case 0, 2:
			return true, posNonNull
		case 1:
			return true, posAny
		}
		return false, posAny
	case fNode:
		return true, posAny
	case fMarker:
		return f.n == 0, f.con
	}
	return false, posAny
}

func fitsV(c class, con pos) Verdict {
	switch con {
	case posKeyable:
		switch c {
		case clKeyable:
			return Accept
		case clFloat, clUnknown:
			return Either
		}
		return Reject
	case posNonNull:
		switch c {
		case clNull:
			return Reject
		case clUnknown:
			return Either
		}
	}
	return Accept
}

func fits(c class, con pos) bool { return fitsV(c, con) != Reject }

func (m *Model) lax(v Verdict) Verdict {
	if v == Reject && m.cfg.LaxMarkers {
		return Either
	}
	return v
}

// childDone registers a completed value of class c (with optional key string) in the current frame.
// It returns Reject if completing it violates a rule (duplicate key / duplicate marker / unresolvable forward reference).
func (m *Model) childDone(c class, key string, hasKey bool) Verdict {
	f := m.top()
	if f == nil {
		m.phase = 3
		return Accept
	}
	switch f.kind {
	case fMap:
		if f.n%2 == 0 && hasKey {
			if f.keys[key] {
				m.Reason = "duplicate-key"
				return Reject
			}
			f.keys[key] = true
		}
		f.n++
	case fRecType:
		if hasKey {
			if f.keys[key] {
				m.Reason = "duplicate-key"
				return Reject
			}
			f.keys[key] = true
		}
		f.n++
	case fMarker:
		// marked object complete: register marker, then complete in the parent
		m.stack = m.stack[:len(m.stack)-1]
		v := Accept
		if _, dup := m.markers[f.name]; dup {
			if !m.cfg.LaxMarkers {
				m.Reason = "duplicate-marker-id"
				return Reject
			}
			v = Either
		}
		m.markers[f.name] = c
		if con, ok := m.pending[f.name]; ok {
			delete(m.pending, f.name)
			switch fitsV(c, con) {
			case Either:
				v = Either
			case Reject:
				if con == posKeyable && !m.cfg.LaxMarkers {
					m.Reason = "forward-key-reference-to-non-keyable"
					return Reject
				}
				v = Either // reference to a null target in an edge: not fixed by the statement
			}
		}
		v2 := m.childDone(c, key, hasKey)
		if v2 == Reject {
			return Reject
		}
		if v == Either || v2 == Either {
			return Either
		}
		return Accept
	default:
		f.n++
	}
	return Accept
}

// ValidIdentChar is the identifier character class of the CE specification / CTE grammar.
func ValidIdentChar(r rune) bool { return validIdentChar(r) }

func validIdentChar(r rune) bool {
	if r == '_' || r == '.' || r == '-' {
		return true
	}
	return unicode.Is(unicode.Cf, r) || unicode.IsLetter(r) || unicode.IsMark(r) || unicode.IsNumber(r)
}

// IdentVerdict classifies an identifier per C13: non-empty, within configured length, valid characters.
func (m *Model) IdentVerdict(id []byte) Verdict {
	if len(id) == 0 {
		return Reject
	}
	if !utf8.Valid(id) {
		return Reject
	}
	unsure := false
	for _, r := range string(id) {
		switch IdentCharVerdict(r) {
		case Reject:
			m.Reason = "invalid-identifier-character"
			return Reject
		case Either:
			unsure = true
		}
	}
	// the length unit is bytes: the CE specification limits identifiers in bytes and CBE stores a byte length
	if len(id) > m.cfg.MaxIdentifierLength {
		m.Reason = "identifier-too-long"
		return Reject
	}
	if unsure {
		return Either // Unicode-version dependent character
	}
	return Accept
}

func inRanges(tab [][2]rune, r rune) bool {
	lo, hi := 0, len(tab)
	for lo < hi {
		mid := (lo + hi) / 2
		switch {
		case r < tab[mid][0]:
			hi = mid
		case r > tab[mid][1]:
			lo = mid + 1
		default:
			return true
		}
	}
	return false
}

// IdentCharVerdict: the identifier character class is [Cf L M N _ . -]. General categories of a code point depend on
// the Unicode version of the table an implementation was generated from, so only code points whose membership is the
// same in Unicode 3.2 and in Go's current tables have a fixed verdict; the others are don't-cares.
func IdentCharVerdict(r rune) Verdict {
	if r == '_' || r == '.' || r == '-' {
		return Accept
	}
	now := validIdentChar(r)
	old := inRanges(ident32, r)
	oldAssigned := inRanges(assigned32, r)
	switch {
	case now && old:
		return Accept
	case !now && oldAssigned && !old:
		return Reject
	case r < 0x80:
		if now {
			return Accept
		}
		return Reject
	}
	return Either
}

func isStringLike(at events.ArrayType) bool {
	switch at {
	case events.ArrayTypeString, events.ArrayTypeResourceID, events.ArrayTypeReferenceRemote, events.ArrayTypeCustomText:
		return true
	}
	return false
}

func arrayClass(at events.ArrayType) class {
	switch at {
	case events.ArrayTypeString, events.ArrayTypeResourceID:
		return clKeyable
	}
	return clOther
}

func elemBytes(at events.ArrayType, n uint64) uint64 {
	bits := uint64(at.ElementSize())
	if bits == 1 {
		return (n + 7) / 8
	}
	return n * (bits / 8)
}

func arrayKey(at events.ArrayType, content []byte) (string, bool) {
	switch at {
	case events.ArrayTypeString:
		return "s:" + string(content), true
	case events.ArrayTypeResourceID:
		return "r:" + string(content), true
	}
	return "", false
}

// IntKey is the canonical key of an integer value.
func IntKey(v *big.Int) string { return "i:" + v.String() }

func scalarInfo(e ev.E) (c class, key string, hasKey bool, isFloat bool) {
	switch e.K {
	case ev.Null:
		return clNull, "", false, false
	case ev.Boolean:
		return clKeyable, fmt.Sprintf("b:%v", e.B), true, false
	case ev.True:
		return clKeyable, "b:true", true, false
	case ev.False:
		return clKeyable, "b:false", true, false
	case ev.PInt:
		return clKeyable, IntKey(new(big.Int).SetUint64(e.U)), true, false
	case ev.NInt:
		if e.U == 0 {
			return clKeyable, "i:-0", true, false
		}
		return clKeyable, IntKey(new(big.Int).Neg(new(big.Int).SetUint64(e.U))), true, false
	case ev.Int:
		return clKeyable, IntKey(big.NewInt(e.I)), true, false
	case ev.BigInt:
		if e.Big == nil {
			return clNull, "", false, false
		}
		return clKeyable, IntKey(e.Big), true, false
	case ev.UID:
		return clKeyable, fmt.Sprintf("u:%x", e.Data), true, false
	case ev.Time:
		return clKeyable, "t:" + ev.TimeKey(e.T), true, false
	case ev.Float:
		if e.F != e.F {
			return clOther, "", false, false
		}
		return clOther, "", false, true
	case ev.BigFloat:
		if e.BF == nil {
			return clNull, "", false, false
		}
		return clOther, "", false, true
	case ev.DFloat:
		if e.DF.IsNan() {
			return clOther, "", false, false
		}
		return clOther, "", false, true
	case ev.BigDecimal:
		if e.BDec == nil {
			return clNull, "", false, false
		}
		if e.BDec.Form > 1 { // NaN forms
			return clOther, "", false, false
		}
		return clOther, "", false, true
	case ev.NaN:
		return clOther, "", false, false
	}
	panic("not a scalar: " + e.K.String())
}

// Step evaluates one event. If the verdict is Accept or Either the model has moved to the successor state.
func (m *Model) Step(e ev.E) Verdict {
	if m.dead {
		return Reject
	}
	m.Reason = ""
	v := m.step(e)
	if v == Reject {
		m.dead = true
		if m.Reason == "" {
			m.Reason = "structure"
		}
	}
	return v
}

func (m *Model) step(e ev.E) Verdict {
	switch e.K {
	case ev.BD:
		if m.phase != 0 {
			return Reject
		}
		m.phase = 1
		return Accept
	case ev.Version:
		if m.phase != 1 || e.U != 0 {
			return Reject
		}
		m.phase = 2
		return Accept
	case ev.ED:
		if m.phase != 3 || len(m.stack) != 0 {
			return Reject
		}
		m.phase = 4
		if len(m.pending) > 0 {
			m.Reason = "unresolved-reference"
			return m.lax(Reject)
		}
		return Accept
	case ev.Padding, ev.Comment:
		// placement of padding/comments is not fixed by C10..C13
		if m.phase == 0 || m.phase == 4 {
			return Either
		}
		return Either
	case ev.Error:
		return Either
	}
	if m.phase < 2 || m.phase == 4 {
		return Reject
	}
	f := m.top()

	// inside a chunked array only chunk/data events are legal
	if f != nil && f.kind == fArray {
		switch e.K {
		case ev.Chunk:
			return m.stepChunk(f, e)
		case ev.Data:
			return m.stepData(f, e)
		}
		return Reject
	}
	switch e.K {
	case ev.Chunk, ev.Data:
		return Reject
	}
	if m.phase == 3 {
		return Reject // after the top-level value only ED is legal
	}

	switch e.K {
	case ev.End:
		if f == nil {
			return Reject
		}
		switch f.kind {
		case fList:
		case fMap:
			if f.n%2 != 0 {
				return Reject
			}
		case fRecType:
			m.stack = m.stack[:len(m.stack)-1]
			if f.doomed {
				return Reject
			}
			m.recTypes[f.name] = f.n
			return Accept
		case fRecord:
			if f.n != f.expect {
				return Reject
			}
		case fEdge:
			if f.n != 3 {
				return Reject
			}
		case fNode:
			if f.n < 1 {
				return Reject
			}
		default:
			return Reject // marker awaiting its object
		}
		m.stack = m.stack[:len(m.stack)-1]
		return m.childDone(clOther, "", false)

	case ev.RecordType:
		if len(m.stack) != 0 || m.phase != 2 {
			return Reject
		}
		iv := m.IdentVerdict(e.Data)
		if iv == Reject {
			return Reject
		}
		nf := &frame{kind: fRecType, keys: map[string]bool{}, name: string(e.Data)}
		if _, dup := m.recTypes[nf.name]; dup {
			nf.doomed = true
			m.stack = append(m.stack, nf)
			return Either
		}
		m.stack = append(m.stack, nf)
		return iv
	}

	// everything below is a value (or marker/reference) and needs a value position
	ok, con := m.position()
	if !ok {
		return Reject
	}
	inMarker := f != nil && f.kind == fMarker
	inRecType := f != nil && f.kind == fRecType

	switch e.K {
	case ev.Marker:
		iv := m.IdentVerdict(e.Data)
		if iv == Reject {
			return Reject
		}
		if inMarker {
			return Reject
		}
		if inRecType {
			return Either
		}
		id := string(e.Data)
		v := iv
		if _, dup := m.markers[id]; dup {
			v = Either
		}
		for _, g := range m.stack {
			if g.kind == fMarker && g.name == id {
				v = Either
			}
		}
		m.stack = append(m.stack, &frame{kind: fMarker, name: id, con: con})
		return v

	case ev.Ref:
		iv := m.IdentVerdict(e.Data)
		if iv == Reject {
			return Reject
		}
		if inMarker {
			return Reject
		}
		if inRecType {
			return Either
		}
		id := string(e.Data)
		v := iv
		if f == nil {
			v = Either // a reference as the top-level value: not fixed by the statement
		}
		if c, known := m.markers[id]; known {
			switch fitsV(c, con) {
			case Either:
				v = Either
			case Reject:
				if con == posKeyable && !m.cfg.LaxMarkers {
					m.Reason = "key-reference-to-non-keyable"
					return Reject
				}
				v = Either
			}
		} else {
			old, ok := m.pending[id]
			switch {
			case !ok:
				m.pending[id] = con
			case old == posKeyable:
			case con == posKeyable || con == posNonNull:
				m.pending[id] = con
			}
		}
		// the referenced object's own key value is unknown: no duplicate-key claim
		if r := m.childDone(clUnknown, "", false); r == Reject {
			return Reject
		}
		return v

	case ev.List, ev.Map, ev.Edge, ev.Node, ev.Record:
		if !fits(clOther, con) {
			return Reject
		}
		nf := &frame{}
		switch e.K {
		case ev.List:
			nf.kind = fList
		case ev.Map:
			nf.kind = fMap
			nf.keys = map[string]bool{}
		case ev.Edge:
			nf.kind = fEdge
		case ev.Node:
			nf.kind = fNode
		case ev.Record:
			iv := m.IdentVerdict(e.Data)
			if iv == Reject {
				return Reject
			}
			n, ok := m.recTypes[string(e.Data)]
			if !ok {
				return Reject
			}
			nf.kind = fRecord
			nf.expect = n
			m.stack = append(m.stack, nf)
			return iv
		}
		m.stack = append(m.stack, nf)
		return Accept

	case ev.Array, ev.StrArray:
		switch e.AT {
		case events.ArrayTypeCustomBinary, events.ArrayTypeCustomText, events.ArrayTypeMedia, events.ArrayTypeMediaData, events.ArrayTypeInvalid:
			return Reject // not expressible through the array API
		}
		c := arrayClass(e.AT)
		if !fits(c, con) {
			return Reject
		}
		if inMarker && e.AT == events.ArrayTypeReferenceRemote {
			m.Reason = "marker-on-reference"
			return Reject // markers are not placed on references, local or remote
		}
		if e.K == ev.Array && !isStringLike(e.AT) && uint64(len(e.Data)) != elemBytes(e.AT, e.U) {
			m.Reason = "byte-count-mismatch"
			return Reject
		}
		if isStringLike(e.AT) && !utf8.Valid(e.Data) {
			m.Reason = "invalid-utf8"
			return Reject
		}
		k, hk := arrayKey(e.AT, e.Data)
		return m.childDone(c, k, hk)

	case ev.Media:
		if !fits(clOther, con) {
			return Reject
		}
		if !utf8.ValidString(e.S) {
			m.Reason = "invalid-utf8-media-type"
			return Reject
		}
		return m.childDone(clOther, "", false)
	case ev.CustomBin:
		if !fits(clOther, con) {
			return Reject
		}
		return m.childDone(clOther, "", false)
	case ev.CustomText:
		if !fits(clOther, con) {
			return Reject
		}
		if !utf8.Valid(e.Data) {
			m.Reason = "invalid-utf8"
			return Reject
		}
		return m.childDone(clOther, "", false)

	case ev.ArrayBegin, ev.MediaBegin, ev.CustomBegin:
		at := e.AT
		switch e.K {
		case ev.MediaBegin:
			at = events.ArrayTypeMedia
			if !utf8.ValidString(e.S) {
				m.Reason = "invalid-utf8-media-type"
				return Reject
			}
		case ev.CustomBegin:
			if at != events.ArrayTypeCustomBinary && at != events.ArrayTypeCustomText {
				return Reject
			}
		case ev.ArrayBegin:
			switch at {
			case events.ArrayTypeCustomBinary, events.ArrayTypeCustomText, events.ArrayTypeMedia, events.ArrayTypeMediaData, events.ArrayTypeInvalid:
				return Reject
			}
		}
		if !fits(arrayClass(at), con) {
			return Reject
		}
		if inMarker && at == events.ArrayTypeReferenceRemote {
			m.Reason = "marker-on-reference"
			return Reject
		}
		m.stack = append(m.stack, &frame{kind: fArray, at: at})
		return Accept
	}

	// scalars
	c, key, hasKey, isFloat := scalarInfo(e)
	if isFloat {
		c = clFloat
	}
	if isFloat && con == posKeyable {
		// float as a key: the CE spec allows it, the statement says only "keyable": not fixed
		if r := m.childDone(clFloat, "", false); r == Reject {
			return Reject
		}
		return Either
	}
	if !fits(c, con) {
		return Reject
	}
	if key == "i:-0" {
		// -0 as a key: whether it equals 0 is not fixed
		f := m.top()
		if f != nil && (f.kind == fMap && f.n%2 == 0 || f.kind == fRecType) {
			if r := m.childDone(c, "", false); r == Reject {
				return Reject
			}
			return Either
		}
	}
	if e.K == ev.Time {
		// two times with different spelling may or may not denote the same key: only identical spellings must collide
		if kf := m.keyFrame(); kf != nil {
			if !kf.keys[key] {
				for k := range kf.keys {
					if strings.HasPrefix(k, "t:") {
						r := m.childDone(c, key, true)
						if r == Reject {
							return Reject
						}
						return Either
					}
				}
			}
		}
	}
	return m.childDone(c, key, hasKey)
}

// keyFrame returns the map/record-type frame if the current position is a key position (looking through markers).
func (m *Model) keyFrame() *frame {
	for i := len(m.stack) - 1; i >= 0; i-- {
		f := m.stack[i]
		if f.kind == fMarker {
			continue
		}
		if f.kind == fMap && f.n%2 == 0 || f.kind == fRecType {
			return f
		}
		return nil
	}
	return nil
}

func (m *Model) stepChunk(f *frame, e ev.E) Verdict {
	if f.inChunk {
		m.Reason = "chunk-header-inside-open-chunk"
		return Reject
	}
	f.sawChunk = true
	n := elemBytes(f.at, e.U)
	v := Accept
	if f.at == events.ArrayTypeBit && e.B && e.U%8 != 0 {
		v = Either // non-final bit chunk not a multiple of 8: outside the statement
	}
	if n == 0 {
		if e.B {
			return v
		}
		return m.finishArray(f)
	}
	f.inChunk = true
	f.more = e.B
	f.remaining = n
	return v
}

func (m *Model) stepData(f *frame, e ev.E) Verdict {
	if !f.inChunk {
		m.Reason = "data-outside-chunk"
		return Reject
	}
	if uint64(len(e.Data)) > f.remaining {
		m.Reason = "data-exceeds-declared-chunk-length"
		return Reject
	}
	f.remaining -= uint64(len(e.Data))
	v := Accept
	if isStringLike(f.at) {
		f.content = append(f.content, e.Data...)
		if !f.badUTF8 && !validUTF8Prefix(f.content) {
			f.badUTF8 = true
		}
		if f.badUTF8 {
			v = Either // must be rejected by the end of the array at the latest
		}
	}
	if f.remaining > 0 {
		return v
	}
	f.inChunk = false
	if isStringLike(f.at) {
		if f.badUTF8 {
			if !f.more {
				m.Reason = "invalid-utf8"
				return Reject
			}
			return Either
		}
		if !utf8.Valid(f.content) {
			m.Reason = "chunk-ends-inside-character"
			return Reject
		}
	}
	if f.more {
		return v
	}
	return m.finishArray(f)
}

func (m *Model) finishArray(f *frame) Verdict {
	if isStringLike(f.at) && !utf8.Valid(f.content) {
		m.Reason = "invalid-utf8"
		return Reject
	}
	m.stack = m.stack[:len(m.stack)-1]
	k, hk := arrayKey(f.at, f.content)
	return m.childDone(arrayClass(f.at), k, hk)
}

// validUTF8Prefix: b is valid UTF-8 possibly followed by an incomplete (but so far legal) final sequence.
func validUTF8Prefix(b []byte) bool {
	for len(b) > 0 {
		r, size := utf8.DecodeRune(b)
		if r == utf8.RuneError && size <= 1 {
			// invalid or incomplete: incomplete only if FullRune is false
			if !utf8.FullRune(b) {
				// could still become valid? check that the lead byte and continuation bytes so far are plausible
				return plausiblePartial(b)
			}
			return false
		}
		b = b[size:]
	}
	return true
}

func plausiblePartial(b []byte) bool {
	// try all completions with continuation bytes 0x80..0xBF (at most 3 missing bytes): cheap exhaustive check
	need := 0
	switch {
	case b[0]&0xE0 == 0xC0:
		need = 2
	case b[0]&0xF0 == 0xE0:
		need = 3
	case b[0]&0xF8 == 0xF0:
		need = 4
	default:
		return false
	}
	missing := need - len(b)
	if missing <= 0 {
		return false
	}
	buf := make([]byte, need)
	copy(buf, b)
	var rec func(i int) bool
	rec = func(i int) bool {
		if i == need {
			return utf8.Valid(buf)
		}
		for _, c := range []byte{0x80, 0x8f, 0x90, 0x9f, 0xa0, 0xbf} {
			buf[i] = c
			if rec(i + 1) {
				return true
			}
		}
		return false
	}
	return rec(len(b))
}

// ContextName names the position the next event arrives at (used as a discriminator in violation signatures).
func (m *Model) ContextName() string {
	switch m.phase {
	case 0:
		return "start"
	case 1:
		return "after-bd"
	case 3:
		return "after-top-value"
	case 4:
		return "ended"
	}
	return ctxOf(m.stack)
}

func ctxOf(stack []*frame) string {
	if len(stack) == 0 {
		return "top"
	}
	f := stack[len(stack)-1]
	switch f.kind {
	case fList:
		return "list"
	case fMap:
		if f.n%2 == 0 {
			return "map-key"
		}
		return "map-value"
	case fRecType:
		return "rectype"
	case fRecord:
		if f.n >= f.expect {
			return "record-full"
		}
		return "record"
	case fEdge:
		return fmt.Sprintf("edge%d", f.n)
	case fNode:
		if f.n == 0 {
			return "node-value"
		}
		return "node-children"
	case fMarker:
		return "marked:" + ctxOf(stack[:len(stack)-1])
	case fArray:
		if f.inChunk {
			return "array-chunk"
		}
		return "array"
	}
	return "?"
}
