// Package fx is the check framework: sharded worker processes, violation signatures, known-findings matching,
// evidence files, replay files.
package fx

import (
	"bufio"
	"crypto/sha256"
	"encoding/binary"
	"encoding/hex"
	"encoding/json"
	"fmt"
	"hash/fnv"
	"os"
	"sort"
	"strings"
	"sync/atomic"
	"time"
)

// Check describes one property check.
type Check struct {
	ID          string
	Level       string // exploration | fault_enumeration | model_checking
	Rule        string // how cases are enumerated and what makes one non-trivial/distinct
	Assumptions []string
	TrustedBase []string
	// Run enumerates the whole space deterministically; it evaluates only the cases for which c.Take() is true.
	Run func(c *Ctx)
	// Replay re-executes one recorded case (the Witness of a violation) and returns "" if it passes now.
	Replay func(witness json.RawMessage) string
	// MemLimitKB for worker address space (ulimit -v); 0 = default 6 GiB
	MemLimitKB int
	// Workers overrides the worker count (0 = 16)
	Workers int
	// StallSeconds without progress before a worker is declared hung (0 = 120)
	StallSeconds int
	// Variants: binary name suffixes ("" = the default build); the enumeration is run once per variant
	Variants []string
	// MinDistinct etc: vacuity guards evaluated by the supervisor on merged counters: name -> minimum
	Guards map[string]int64
}

type Violation struct {
	Signature string          `json:"signature"`
	Message   string          `json:"message"`
	Witness   json.RawMessage `json:"witness"`
	Count     int64           `json:"count"`
	Order     int64           `json:"order"` // enumeration index of the first witness (smaller = simpler)
}

// Ctx is the worker-side context.
type Ctx struct {
	ID      string
	Tier    string
	Seed    int64
	Shard   int
	NShards int
	Trace   bool
	Only    int64  // if >=0: evaluate only this case index (pin-pointing)
	Variant string // build variant of this worker binary ("" default, "-purego", ...)

	idx        int64
	progress   int64
	Counters   map[string]int64
	viol       map[string]*Violation
	samples    []interface{}
	maxSamples int
	distinct   map[string]map[uint64]struct{}
	notes      []string
	deadline   time.Time
	capped     bool
	caseFile   *os.File
	outfile    string
}

func (c *Ctx) Thorough() bool { return c.Tier == "thorough" }

// Pick returns q in quick tier and t in thorough tier.
func (c *Ctx) Pick(q, t int) int {
	if c.Thorough() {
		return t
	}
	return q
}

// Take advances the case index and says whether this worker owns the case.
func (c *Ctx) Take() bool {
	i := c.idx
	c.idx++
	if c.Only >= 0 {
		return i == c.Only
	}
	if int(i%int64(c.NShards)) != c.Shard {
		return false
	}
	atomic.AddInt64(&c.progress, 1)
	if c.caseFile != nil {
		var b [8]byte
		binary.LittleEndian.PutUint64(b[:], uint64(i))
		c.caseFile.WriteAt(b[:], 0)
	}
	if c.Trace {
		fmt.Fprintf(os.Stderr, "TRACE case=%d\n", i)
	}
	return true
}

// TraceInput records a description of the input about to be tried (trace mode only: the supervisor re-runs a crashed
// shard in trace mode and reads the last description to pin the exact input that killed the process).
func (c *Ctx) TraceInput(desc func() string) {
	if !c.Trace && c.Only < 0 {
		return
	}
	if p := os.Getenv("VERIF_TRACE_FILE"); p != "" {
		os.WriteFile(p, []byte(desc()), 0o644)
	}
}

// Index is the index of the case most recently offered by Take.
func (c *Ctx) Index() int64 { return c.idx - 1 }

// Tick signals liveness for long single cases.
func (c *Ctx) Tick() { atomic.AddInt64(&c.progress, 1) }

func (c *Ctx) Add(name string, d int64) {
	c.Counters[name] += d
	atomic.AddInt64(&c.progress, 1) // every counted evaluation is also a sign of life for the stall watchdog
}
func (c *Ctx) Max(name string, v int64) {
	if v > c.Counters[name] {
		c.Counters[name] = v
	}
}

// Distinct records key in the named set (merged across workers by hash).
func (c *Ctx) Distinct(set string, key string) bool {
	m := c.distinct[set]
	if m == nil {
		m = map[uint64]struct{}{}
		c.distinct[set] = m
	}
	h := fnv.New64a()
	h.Write([]byte(key))
	k := h.Sum64()
	if _, ok := m[k]; ok {
		return false
	}
	m[k] = struct{}{}
	return true
}

func (c *Ctx) Sample(x interface{}) {
	if len(c.samples) < c.maxSamples {
		c.samples = append(c.samples, x)
	}
}

func (c *Ctx) Note(s string) { c.notes = append(c.notes, s) }

// Capped marks the exploration as not exhaustive (a time/state cap was hit).
func (c *Ctx) Capped(why string) {
	c.capped = true
	c.Note("cap: " + why)
}

// TimeUp reports whether the soft deadline of this tier has passed.
func (c *Ctx) TimeUp() bool { return !c.deadline.IsZero() && time.Now().After(c.deadline) }

func (c *Ctx) Violation(sig, msg string, witness interface{}) {
	v := c.viol[sig]
	if v == nil {
		w, err := json.Marshal(witness)
		if err != nil {
			w, _ = json.Marshal(fmt.Sprintf("%v", witness))
		}
		v = &Violation{Signature: sig, Message: msg, Witness: w, Order: c.Index()}
		c.viol[sig] = v
	}
	v.Count++
}

type workerOut struct {
	Counters   map[string]int64    `json:"counters"`
	Violations []*Violation        `json:"violations"`
	Samples    []interface{}       `json:"samples"`
	Distinct   map[string][]uint64 `json:"-"`
	DistinctN  map[string]int64    `json:"distinct_n"`
	Notes      []string            `json:"notes"`
	Capped     bool                `json:"capped"`
	Cases      int64               `json:"cases"`
	Done       bool                `json:"done"`
}

// RunWorker executes check in this process for one shard and writes outfile (+ .d<set> hash files).
func RunWorker(chk *Check, tier string, seed int64, shard, nshards int, outfile string, trace bool, only int64, budget time.Duration) {
	c := &Ctx{ID: chk.ID, Tier: tier, Seed: seed, Shard: shard, NShards: nshards, Trace: trace, Only: only,
		Counters: map[string]int64{}, viol: map[string]*Violation{}, distinct: map[string]map[uint64]struct{}{}, maxSamples: 3}
	if budget > 0 {
		c.deadline = time.Now().Add(budget)
	}
	if p := os.Getenv("VERIF_CASE_FILE"); p != "" && only < 0 {
		c.caseFile, _ = os.Create(p)
	}
	if exe, err := os.Executable(); err == nil {
		base := exe[strings.LastIndex(exe, "/")+1:]
		c.Variant = strings.TrimPrefix(base, "vcheck")
	}
	stop := make(chan struct{})
	go func() { // heartbeat: progress counter once per second on stderr
		t := time.NewTicker(time.Second)
		defer t.Stop()
		for {
			select {
			case <-stop:
				return
			case <-t.C:
				fmt.Fprintf(os.Stderr, "HB %d\n", atomic.LoadInt64(&c.progress))
			}
		}
	}()
	c.outfile = outfile
	chk.Run(c)
	close(stop)
	c.writeOut(outfile, true)
}

// Checkpoint saves everything found so far; the supervisor merges it if the process dies in a later case (checks call
// it before inputs that are known to be able to kill the process).
func (c *Ctx) Checkpoint() {
	if c.outfile != "" && c.Only < 0 {
		c.writeOut(c.outfile+".ckpt", false)
	}
}

func (c *Ctx) writeOut(outfile string, done bool) {
	out := workerOut{Counters: c.Counters, Samples: c.samples, Notes: c.notes, Capped: c.capped, Cases: c.idx, Done: done,
		DistinctN: map[string]int64{}}
	for _, v := range c.viol {
		out.Violations = append(out.Violations, v)
	}
	sort.Slice(out.Violations, func(i, j int) bool { return out.Violations[i].Signature < out.Violations[j].Signature })
	for set, m := range c.distinct {
		out.DistinctN[set] = int64(len(m))
		f, err := os.Create(outfile + ".d." + set)
		if err != nil {
			panic(err)
		}
		w := bufio.NewWriterSize(f, 1<<20)
		var b [8]byte
		for k := range m {
			binary.LittleEndian.PutUint64(b[:], k)
			w.Write(b[:])
		}
		w.Flush()
		f.Close()
	}
	b, err := json.Marshal(out)
	if err != nil {
		panic(err)
	}
	if err := os.WriteFile(outfile, b, 0o644); err != nil {
		panic(err)
	}
}

// ---------- known findings ----------

type KnownEntry struct {
	Property  string `json:"property,omitempty"`
	Signature string `json:"signature,omitempty"`
	What      string `json:"what,omitempty"`
	Witness   string `json:"witness,omitempty"`
	Fixed     string `json:"fixed,omitempty"` // "property=<id> <commit> <what failed>"
}

func LoadKnown(path string) ([]KnownEntry, error) {
	b, err := os.ReadFile(path)
	if err != nil {
		if os.IsNotExist(err) {
			return nil, nil
		}
		return nil, err
	}
	var out struct {
		Findings []KnownEntry `json:"findings"`
	}
	if err := json.Unmarshal(b, &out); err != nil {
		return nil, err
	}
	return out.Findings, nil
}

func SigHash(s string) string {
	h := sha256.Sum256([]byte(s))
	return hex.EncodeToString(h[:8])
}

func SanitizeLine(s string) string {
	s = strings.ReplaceAll(s, "\n", "\\n")
	s = strings.ReplaceAll(s, "\r", "\\r")
	if len(s) > 400 {
		s = s[:400] + "…"
	}
	return s
}

// NewScratchCtx returns a single-shard context used by replay functions (evaluates every case, collects violations).
func NewScratchCtx() *Ctx {
	return &Ctx{ID: "replay", Tier: "quick", NShards: 1, Only: -1, Counters: map[string]int64{}, viol: map[string]*Violation{},
		distinct: map[string]map[uint64]struct{}{}, maxSamples: 0}
}

// FirstViolation returns the message of a recorded violation ("" if none).
func (c *Ctx) FirstViolation() string {
	best := ""
	for sig, v := range c.viol {
		s := sig + ": " + v.Message
		if best == "" || s < best {
			best = s
		}
	}
	return best
}

// ViolationCount is the number of distinct violation signatures recorded so far.
func (c *Ctx) ViolationCount() int { return len(c.viol) }
