package fx

import (
	"bufio"
	"encoding/binary"
	"encoding/json"
	"fmt"
	"io"
	"os"
	"os/exec"
	"path/filepath"
	"regexp"
	"sort"
	"strconv"
	"strings"
	"sync"
	"time"
)

type workerResult struct {
	shard    int
	partial  *workerOut // checkpoint of a worker that died later
	out      *workerOut
	crashed  bool
	stalled  bool
	stderr   string // tail of stderr without heartbeat lines
	lastHB   int64
	exitInfo string
}

var verifRoot = "/verif"

func init() {
	if v := os.Getenv("VERIF_ROOT"); v != "" {
		verifRoot = v
	}
}

func envInt(name string, def int64) int64 {
	if v := os.Getenv(name); v != "" {
		if n, err := strconv.ParseInt(v, 10, 64); err == nil {
			return n
		}
	}
	return def
}

// spawn runs one worker process; extra args are appended (e.g. --trace, --only N).
func spawn(self string, chk *Check, tier string, seed int64, shard, n int, outfile string, stall time.Duration, extra ...string) *workerResult {
	mem := chk.MemLimitKB
	if mem == 0 {
		mem = 6 * 1024 * 1024
	}
	args := []string{"worker", chk.ID, tier, strconv.FormatInt(seed, 10), strconv.Itoa(shard), strconv.Itoa(n), outfile}
	args = append(args, extra...)
	quoted := make([]string, 0, len(args)+1)
	quoted = append(quoted, shq(self))
	for _, a := range args {
		quoted = append(quoted, shq(a))
	}
	cmd := exec.Command("sh", "-c", fmt.Sprintf("ulimit -v %d; exec %s", mem, strings.Join(quoted, " ")))
	cmd.Env = append(os.Environ(), "GOMAXPROCS=2", "GOTRACEBACK=single")
	cmd.Env = append(cmd.Env, "VERIF_TRACE_FILE="+outfile+".lastinput", "VERIF_CASE_FILE="+outfile+".case")
	if strings.HasSuffix(self, "-race") {
		cmd.Env = append(cmd.Env, "GORACE=log_path="+outfile+".racelog halt_on_error=0 exitcode=0", "VERIF_RACE_LOG="+outfile+".racelog")
	}
	cmd.Stdout = os.Stderr
	pr, err := cmd.StderrPipe()
	if err != nil {
		panic(err)
	}
	os.Remove(outfile)
	res := &workerResult{shard: shard}
	if err := cmd.Start(); err != nil {
		res.crashed = true
		res.exitInfo = err.Error()
		return res
	}
	var mu sync.Mutex
	lastChange := time.Now()
	var tail, head []string
	done := make(chan struct{})
	go func() {
		sc := bufio.NewScanner(pr)
		sc.Buffer(make([]byte, 1<<20), 1<<24)
		for sc.Scan() {
			line := sc.Text()
			if strings.HasPrefix(line, "HB ") {
				v, _ := strconv.ParseInt(line[3:], 10, 64)
				mu.Lock()
				if v != res.lastHB {
					res.lastHB = v
					lastChange = time.Now()
				}
				mu.Unlock()
				continue
			}
			mu.Lock()
			if strings.HasPrefix(line, "TRACE ") {
				lastChange = time.Now()
				// keep only the latest trace line
				if len(tail) > 0 && strings.HasPrefix(tail[len(tail)-1], "TRACE ") {
					tail[len(tail)-1] = line
				} else {
					tail = append(tail, line)
				}
			} else {
				if len(head) < 40 {
					head = append(head, line)
				}
				tail = append(tail, line)
				if len(tail) > 60 {
					tail = tail[len(tail)-60:]
				}
			}
			mu.Unlock()
		}
		io.Copy(io.Discard, pr)
		close(done)
	}()
	waitCh := make(chan error, 1)
	go func() { <-done; waitCh <- cmd.Wait() }()
	tick := time.NewTicker(2 * time.Second)
	defer tick.Stop()
loop:
	for {
		select {
		case err := <-waitCh:
			if err != nil {
				res.crashed = true
				res.exitInfo = err.Error()
			}
			break loop
		case <-tick.C:
			mu.Lock()
			idle := time.Since(lastChange)
			mu.Unlock()
			if idle > stall {
				res.stalled = true
				cmd.Process.Kill()
				<-waitCh
				break loop
			}
		}
	}
	mu.Lock()
	res.stderr = strings.Join(tail, "\n")
	if len(head) == 40 && len(tail) == 60 {
		res.stderr = strings.Join(head, "\n") + "\n...\n" + res.stderr
	}
	mu.Unlock()
	if res.crashed || res.stalled {
		if o := loadWorkerOut(outfile + ".ckpt"); o != nil {
			res.partial = o
		}
	}
	if !res.crashed && !res.stalled {
		b, err := os.ReadFile(outfile)
		if err != nil {
			res.crashed = true
			res.exitInfo = "no output file: " + err.Error()
			return res
		}
		var o workerOut
		if err := json.Unmarshal(b, &o); err != nil {
			res.crashed = true
			res.exitInfo = "bad output file: " + err.Error()
			return res
		}
		o.Distinct = map[string][]uint64{}
		for set := range o.DistinctN {
			db, err := os.ReadFile(outfile + ".d." + set)
			if err == nil {
				hs := make([]uint64, len(db)/8)
				for i := range hs {
					hs[i] = binary.LittleEndian.Uint64(db[i*8:])
				}
				o.Distinct[set] = hs
			}
			os.Remove(outfile + ".d." + set)
		}
		res.out = &o
	}
	os.Remove(outfile)
	return res
}

func loadWorkerOut(path string) *workerOut {
	b, err := os.ReadFile(path)
	if err != nil {
		return nil
	}
	var o workerOut
	if json.Unmarshal(b, &o) != nil {
		return nil
	}
	o.Distinct = map[string][]uint64{}
	for set := range o.DistinctN {
		if db, err := os.ReadFile(path + ".d." + set); err == nil {
			hs := make([]uint64, len(db)/8)
			for i := range hs {
				hs[i] = binary.LittleEndian.Uint64(db[i*8:])
			}
			o.Distinct[set] = hs
		}
	}
	return &o
}

func shq(s string) string { return "'" + strings.ReplaceAll(s, "'", "'\\''") + "'" }

var traceRe = regexp.MustCompile(`TRACE case=(\d+)`)

func crashKind(stderr string) string {
	switch {
	case strings.Contains(stderr, "out of memory") || strings.Contains(stderr, "cannot allocate memory"):
		return "out-of-memory"
	case strings.Contains(stderr, "stack overflow") || strings.Contains(stderr, "stack exceeds"):
		return "stack-overflow"
	case strings.Contains(stderr, "all goroutines are asleep"):
		return "deadlock"
	case strings.Contains(stderr, "panic:"):
		return "escaped-panic"
	case strings.Contains(stderr, "fatal error:"):
		return "fatal-error"
	}
	return "abnormal-exit"
}

// Supervise runs the whole check and returns the process exit code.
func Supervise(self string, chk *Check, tier string) int {
	start := time.Now()
	seed := envInt("VERIF_SEED", 0)
	n := chk.Workers
	if n == 0 {
		n = 16
	}
	if v := envInt("VERIF_WORKERS", 0); v > 0 {
		n = int(v)
	}
	stall := time.Duration(chk.StallSeconds) * time.Second
	if stall == 0 {
		stall = 120 * time.Second
	}
	tmp, err := os.MkdirTemp(filepath.Join(verifRoot, ".work"), chk.ID+"-")
	if err != nil {
		os.MkdirAll(filepath.Join(verifRoot, ".work"), 0o755)
		tmp, err = os.MkdirTemp(filepath.Join(verifRoot, ".work"), chk.ID+"-")
		if err != nil {
			fmt.Fprintln(os.Stderr, "cannot create work dir:", err)
			return 2
		}
	}
	defer os.RemoveAll(tmp)

	// shard order is permuted by the seed (affects only which worker starts first)
	// build variants (e.g. "-purego"): the whole enumeration is run once per variant binary, n shards each
	variants := chk.Variants
	if len(variants) == 0 {
		variants = []string{""}
	}
	results := make([]*workerResult, n*len(variants))
	selfOf := make([]string, n*len(variants))
	var wg sync.WaitGroup
	for vi, variant := range variants {
		bin := self + variant
		if _, err := os.Stat(bin); err != nil {
			fmt.Fprintf(os.Stderr, "variant binary %s missing: %v\n", bin, err)
			return 2
		}
		for i := 0; i < n; i++ {
			wg.Add(1)
			go func(vi, i int, bin, variant string) {
				defer wg.Done()
				selfOf[vi*n+i] = bin
				results[vi*n+i] = spawn(bin, chk, tier, seed, i, n, filepath.Join(tmp, fmt.Sprintf("w%d_%d.json", vi, i)), stall)
			}(vi, i, bin, variant)
		}
	}
	wg.Wait()

	merged := map[string]int64{}
	maxKeys := map[string]bool{}
	viol := map[string]*Violation{}
	var samples []interface{}
	var notes []string
	distinct := map[string]map[uint64]struct{}{}
	capped := false
	var cases int64
	infra := 0
	addViol := func(v *Violation) {
		if old := viol[v.Signature]; old != nil {
			old.Count += v.Count
			if v.Order < old.Order {
				old.Order, old.Witness, old.Message = v.Order, v.Witness, v.Message
			}
			return
		}
		viol[v.Signature] = v
	}
	// dead or stalled workers: read the case each was working on and confirm it alone, all in parallel
	ones := make([]*workerResult, len(results))
	caseIdxs := make([]int64, len(results))
	{
		var wg2 sync.WaitGroup
		for ri, r := range results {
			caseIdxs[ri] = -1
			if r.out != nil {
				continue
			}
			if b, err := os.ReadFile(filepath.Join(tmp, fmt.Sprintf("w%d_%d.json.case", ri/n, ri%n))); err == nil && len(b) == 8 {
				caseIdxs[ri] = int64(binary.LittleEndian.Uint64(b))
			}
			if caseIdxs[ri] >= 0 {
				wg2.Add(1)
				go func(ri int, r *workerResult) {
					defer wg2.Done()
					ones[ri] = spawn(selfFor(selfOf, results, r, self), chk, tier, seed, r.shard, n, filepath.Join(tmp, fmt.Sprintf("o%d.json", ri)), stall, "--only", strconv.FormatInt(caseIdxs[ri], 10))
				}(ri, r)
			}
		}
		wg2.Wait()
	}
	mergeOut := func(o *workerOut) {
		for k, v := range o.Counters {
			if strings.HasPrefix(k, "max:") {
				maxKeys[k] = true
				if v > merged[k] {
					merged[k] = v
				}
			} else {
				merged[k] += v
			}
		}
		for _, v := range o.Violations {
			addViol(v)
		}
		if len(samples) < 4 {
			samples = append(samples, o.Samples...)
		}
		for _, s := range o.Notes {
			dup := false
			for _, t := range notes {
				if t == s {
					dup = true
				}
			}
			if !dup {
				notes = append(notes, s)
			}
		}
		for set, hs := range o.Distinct {
			m := distinct[set]
			if m == nil {
				m = map[uint64]struct{}{}
				distinct[set] = m
			}
			for _, h := range hs {
				m[h] = struct{}{}
			}
		}
		if o.Capped {
			capped = true
		}
		if o.Cases > cases {
			cases = o.Cases
		}
	}
	for ri, r := range results {
		if r.out != nil {
			mergeOut(r.out)
			continue
		}
		// crash or stall: pin-point by re-running the shard in trace mode
		kind := "hang"
		if r.crashed {
			kind = crashKind(r.stderr)
		}
		caseIdx := caseIdxs[ri]
		fmt.Fprintf(os.Stderr, "[supervisor] worker %d %s (%s) at case %d\n", r.shard, kind, r.exitInfo, caseIdx)
		tr := r
		if caseIdx < 0 {
			fmt.Fprintf(os.Stderr, "[supervisor] no case record; re-running shard %d in trace mode to pin the case\n", r.shard)
			tr = spawn(selfFor(selfOf, results, r, self), chk, tier, seed, r.shard, n, filepath.Join(tmp, fmt.Sprintf("t%d.json", r.shard)), stall, "--trace")
			if m := traceRe.FindAllStringSubmatch(tr.stderr, -1); len(m) > 0 {
				caseIdx, _ = strconv.ParseInt(m[len(m)-1][1], 10, 64)
			}
			if tr.out != nil {
				fmt.Fprintf(os.Stderr, "[supervisor] worker %d failure did not reproduce in trace mode; first stderr:\n%s\n", r.shard, r.stderr)
				infra++
				continue
			}
		}
		kind2 := "hang"
		if tr.crashed {
			kind2 = crashKind(tr.stderr)
		}
		// confirmed in isolation (only that case was run)?
		confirmed := false
		if one := ones[ri]; one != nil {
			confirmed = one.out == nil
			if confirmed {
				tr = one
				kind2 = "hang"
				if one.crashed {
					kind2 = crashKind(one.stderr)
				}
			} else {
				for _, v := range one.out.Violations {
					addViol(v)
				}
			}
		}
		if confirmed && r.partial != nil {
			mergeOut(r.partial) // what the worker had found before it died
		}
		if !confirmed {
			// the case completes when run alone: the worker was starved or killed for a reason outside the check
			// (machine load, watchdog). Not a verdict: run the shard again with a generous stall limit and use that.
			fmt.Fprintf(os.Stderr, "[supervisor] worker %d: case %d completes alone; re-running the shard\n", r.shard, caseIdx)
			again := spawn(selfFor(selfOf, results, r, self), chk, tier, seed, r.shard, n, filepath.Join(tmp, fmt.Sprintf("again%d.json", ri)), 5*stall)
			if again.out != nil {
				results[ri] = again
				mergeOut(again.out)
				continue
			}
			fmt.Fprintf(os.Stderr, "[supervisor] worker %d did not complete on the second attempt either (%s); infrastructure problem, not a verdict\n%s\n", r.shard, again.exitInfo, lastLines(again.stderr, 8))
			infra++
			capped = true
			continue
		}
		lastInput := ""
		for _, f := range []string{filepath.Join(tmp, fmt.Sprintf("o%d.json.lastinput", ri)), filepath.Join(tmp, fmt.Sprintf("t%d.json.lastinput", r.shard))} {
			if b, err := os.ReadFile(f); err == nil && lastInput == "" {
				lastInput = string(b)
			}
		}
		w, _ := json.Marshal(map[string]interface{}{"case_index": caseIdx, "shard": r.shard, "nshards": n, "tier": tier,
			"kind": kind2, "confirmed_alone": confirmed, "last_input": lastInput, "stderr_tail": lastLines(tr.stderr, 12)})
		site := crashSite(tr.stderr)
		if f := strings.Fields(lastInput); len(f) > 0 {
			// the check's own description of the input class is a stabler discriminator than the topmost frame of a crash dump
			site = f[0]
			if len(f) > 1 && strings.HasPrefix(f[1], "value=") {
				site += ":" + strings.TrimPrefix(f[1], "value=")
			}
		}
		addViol(&Violation{Signature: "process-" + kind2 + ":" + site, Message: fmt.Sprintf("worker process %s at case %d; last input: %s", kind2, caseIdx, SanitizeLine(lastInput)), Witness: w, Count: 1, Order: caseIdx})
		capped = true
		notes = append(notes, fmt.Sprintf("shard %d did not complete (%s at case %d)", r.shard, kind2, caseIdx))
	}

	// guards
	for set, m := range distinct {
		merged["distinct:"+set] = int64(len(m))
	}
	if m, ok := distinct["states"]; ok {
		merged["states_summed_over_workers"] = merged["states"]
		merged["states"] = int64(len(m))
		if _, ok := distinct["nontrivial"]; !ok {
			merged["distinct:nontrivial"] = int64(len(m))
		}
	}
	guardFail := []string{}
	for name, min := range chk.Guards {
		if merged[name] < min {
			guardFail = append(guardFail, fmt.Sprintf("%s=%d < %d", name, merged[name], min))
		}
	}

	// known findings
	known, err := LoadKnown(filepath.Join(verifRoot, "known-findings.json"))
	if err != nil {
		fmt.Fprintln(os.Stderr, "cannot read known-findings.json:", err)
		return 2
	}
	knownSig := map[string]KnownEntry{}
	for _, k := range known {
		if k.Property == chk.ID && k.Signature != "" {
			knownSig[k.Signature] = k
		}
	}
	sigs := make([]string, 0, len(viol))
	for s := range viol {
		sigs = append(sigs, s)
	}
	sort.Strings(sigs)
	newViol := 0
	os.MkdirAll(filepath.Join(verifRoot, "replays", chk.ID), 0o755)
	for _, s := range sigs {
		v := viol[s]
		if k, ok := knownSig[s]; ok {
			fmt.Printf("KNOWN-FINDING: property=%s %s [signature %s, %d cases]\n", chk.ID, SanitizeLine(k.What), SanitizeLine(s), v.Count)
			if os.Getenv("VERIF_SHOW_KNOWN") != "" {
				fmt.Printf("  message: %s\n", SanitizeLine(v.Message))
			}
			continue
		}
		newViol++
		path := filepath.Join(verifRoot, "replays", chk.ID, SigHash(s)+".json")
		rb, _ := json.MarshalIndent(map[string]interface{}{"property": chk.ID, "signature": s, "message": v.Message, "witness": v.Witness, "count": v.Count, "tier": tier}, "", " ")
		os.WriteFile(path, rb, 0o644)
		fmt.Printf("VIOLATION property=%s replay=%s\n", chk.ID, path)
		fmt.Printf("  signature: %s\n  message: %s\n  cases: %d\n", SanitizeLine(s), SanitizeLine(v.Message), v.Count)
	}

	// evidence
	cov := map[string]interface{}{}
	for k, v := range merged {
		cov[k] = v
	}
	evals := merged["evaluations"]
	if evals == 0 {
		evals = merged["transitions"]
	}
	cov["evaluations"] = evals
	dn := merged["distinct:nontrivial"]
	cov["distinct_nontrivial"] = dn
	cov["rule"] = chk.Rule
	if len(samples) > 4 {
		samples = samples[:4]
	}
	if len(samples) == 0 {
		samples = []interface{}{"(no sample recorded)"}
	}
	cov["samples"] = samples
	cov["exhaustive"] = !capped && infra == 0
	cov["enumeration_indices"] = cases
	cov["workers"] = n * len(variants)
	if len(variants) > 1 {
		cov["build_variants"] = variants
	}
	if len(notes) > 0 {
		cov["notes"] = notes
	}
	if len(chk.TrustedBase) > 0 {
		cov["trusted_base"] = chk.TrustedBase
	}
	if chk.Level == "model_checking" {
		if merged["states"] > 0 {
			cov["states"] = merged["states"]
		}
		if merged["transitions"] > 0 {
			cov["transitions"] = merged["transitions"]
		}
		cov["traces_validated_against_impl"] = merged["traces_validated_against_impl"]
	}
	cov["known_findings_matched"] = len(sigs) - newViol
	ev := map[string]interface{}{
		"property_id": chk.ID, "tier": tier, "seed": seed, "level": chk.Level, "coverage": cov,
		"assumptions": chk.Assumptions, "wall_s": time.Since(start).Seconds(), "violations": newViol,
	}
	if ev["assumptions"] == nil || len(chk.Assumptions) == 0 {
		ev["assumptions"] = []string{}
	}
	eb, _ := json.MarshalIndent(ev, "", " ")
	os.MkdirAll(filepath.Join(verifRoot, "evidence"), 0o755)
	if err := os.WriteFile(filepath.Join(verifRoot, "evidence", chk.ID+".json"), eb, 0o644); err != nil {
		fmt.Fprintln(os.Stderr, "cannot write evidence:", err)
		return 2
	}
	fmt.Printf("[%s %s] evaluations=%d distinct_nontrivial=%d states=%d transitions=%d exhaustive=%v known=%d new=%d wall=%.1fs\n",
		chk.ID, tier, evals, dn, merged["states"], merged["transitions"], !capped && infra == 0, len(sigs)-newViol, newViol, time.Since(start).Seconds())
	if newViol > 0 {
		return 1
	}
	if infra > 0 {
		fmt.Fprintf(os.Stderr, "[%s] %d worker(s) failed for infrastructure reasons (not a verdict)\n", chk.ID, infra)
		return 2
	}
	if len(guardFail) > 0 {
		fmt.Fprintf(os.Stderr, "[%s] vacuity guard failed: %s\n", chk.ID, strings.Join(guardFail, "; "))
		return 2
	}
	return 0
}

func selfFor(selfOf []string, results []*workerResult, r *workerResult, def string) string {
	for i, x := range results {
		if x == r && selfOf[i] != "" {
			return selfOf[i]
		}
	}
	return def
}

func lastLines(s string, n int) []string {
	l := strings.Split(s, "\n")
	if len(l) > n {
		l = l[len(l)-n:]
	}
	return l
}

var siteRe = regexp.MustCompile(`(?m)^\s+(/repo/[^\s:]+:\d+)`)
var goroutineRe = regexp.MustCompile(`(?m)^(github\.com/kstenerud/go-concise-encoding/[^\s(]+(?:\([^)]*\))?[^\s(]*)\(`)

// crashSite extracts the first repository frame from a Go crash dump (used to make crash signatures specific).
func crashSite(stderr string) string {
	if m := goroutineRe.FindStringSubmatch(stderr); m != nil {
		return strings.TrimPrefix(m[1], "github.com/kstenerud/go-concise-encoding/")
	}
	if m := siteRe.FindStringSubmatch(stderr); m != nil {
		return m[1]
	}
	return "unknown-site"
}
