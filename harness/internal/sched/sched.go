// Package sched is engine E6: a cooperative scheduler and a depth-first explorer of thread interleavings with
// iterative preemption bounding. Harness threads are goroutines that only run while they hold the baton; every hooked
// synchronisation operation calls Point (before the operation) or Block (a wait), which hands the baton back to the
// controller, which picks the next thread according to the schedule being explored.
package sched

import (
	"fmt"
	"strings"
)

type thread struct {
	id      int
	resume  chan struct{}
	done    bool
	started bool
	blocked func() bool
	op      string
	result  string
}

type abortSentinel struct{}

// PointRec is one scheduling decision of an execution.
type PointRec struct {
	Enabled        []int  // thread ids in canonical order: the running thread first if still enabled, then ascending
	Chosen         int    // index into Enabled
	RunningEnabled bool   // the previously running thread could have continued
	Op             string // operation the chosen thread is about to perform
}

type Exec struct {
	Points   []PointRec
	Results  []string
	Deadlock bool
	Blocked  []string // for a deadlock: what each unfinished thread waits on
	Log      []string // "t<id>:<op>" in execution order
}

func (x *Exec) Choices() []int {
	out := make([]int, len(x.Points))
	for i, p := range x.Points {
		out[i] = p.Chosen
	}
	return out
}

func (x *Exec) PreemptionsBefore(i int) int {
	n := 0
	for _, p := range x.Points[:i] {
		if p.RunningEnabled && p.Chosen != 0 {
			n++
		}
	}
	return n
}

// Scheduler implements vsync.Scheduler.
type Scheduler struct {
	threads []*thread
	current *thread
	yield   chan struct{}
	aborted bool
}

func (s *Scheduler) park(t *thread) {
	s.yield <- struct{}{}
	<-t.resume
	if s.aborted {
		panic(abortSentinel{})
	}
}

// Point is called before every hooked operation. Outside an exploration (set-up code) it does nothing.
func (s *Scheduler) Point(op string, obj interface{}) {
	t := s.current
	if t == nil {
		return
	}
	t.op = op
	s.park(t)
}

// Block parks the calling thread until cond holds (a blocking wait, never a spin).
func (s *Scheduler) Block(op string, obj interface{}, cond func() bool) {
	t := s.current
	if t == nil {
		if !cond() {
			panic("vsync: blocking wait outside an exploration would never return")
		}
		return
	}
	t.op = op
	t.blocked = cond
	s.park(t)
	t.blocked = nil
}

// Run executes bodies under the schedule prefix (a choice index per scheduling point; past the prefix the default
// choice 0 is taken). A prefix choice that is out of range is a hard error (the execution diverged from the recorded one).
func (s *Scheduler) Run(bodies []func() string, prefix []int) (*Exec, error) {
	s.threads = nil
	s.aborted = false
	s.yield = make(chan struct{})
	x := &Exec{Results: make([]string, len(bodies))}
	for i, b := range bodies {
		t := &thread{id: i, resume: make(chan struct{})}
		s.threads = append(s.threads, t)
		go func(t *thread, b func() string) {
			<-t.resume
			defer func() {
				if r := recover(); r != nil {
					if _, ok := r.(abortSentinel); !ok {
						t.result = fmt.Sprintf("ESCAPED PANIC: %v", r)
					}
				}
				t.done = true
				s.yield <- struct{}{}
			}()
			if s.aborted {
				return
			}
			t.result = b()
		}(t, b)
	}
	var running *thread
	var divergence error
	for {
		var enabled []*thread
		if running != nil && !running.done && (running.blocked == nil || running.blocked()) {
			enabled = append(enabled, running)
		}
		runningEnabled := len(enabled) == 1
		for _, t := range s.threads {
			if t != running && !t.done && (t.blocked == nil || t.blocked()) {
				enabled = append(enabled, t)
			}
		}
		if len(enabled) == 0 {
			for _, t := range s.threads {
				if !t.done {
					x.Deadlock = true
					x.Blocked = append(x.Blocked, fmt.Sprintf("t%d blocked in %s", t.id, t.op))
				}
			}
			break
		}
		choice := 0
		if len(x.Points) < len(prefix) {
			choice = prefix[len(x.Points)]
			if choice >= len(enabled) {
				divergence = fmt.Errorf("schedule diverged at point %d: choice %d but only %d threads enabled", len(x.Points), choice, len(enabled))
				break
			}
		}
		t := enabled[choice]
		ids := make([]int, len(enabled))
		for i, e := range enabled {
			ids[i] = e.id
		}
		op := t.op
		if !t.started {
			op = "start"
		}
		x.Points = append(x.Points, PointRec{Enabled: ids, Chosen: choice, RunningEnabled: runningEnabled, Op: op})
		x.Log = append(x.Log, fmt.Sprintf("t%d:%s", t.id, op))
		t.started = true
		running = t
		s.current = t
		t.resume <- struct{}{}
		<-s.yield
		s.current = nil
	}
	// release anything still parked (deadlock or divergence): threads unwind through the abort sentinel
	s.aborted = true
	for _, t := range s.threads {
		for !t.done {
			s.current = t
			t.resume <- struct{}{}
			<-s.yield
			s.current = nil
		}
	}
	for i, t := range s.threads {
		x.Results[i] = t.result
	}
	return x, divergence
}

// Explorer enumerates all schedules with at most Bound preemptions (depth-first over deviations from the default).
type Explorer struct {
	S          *Scheduler
	Bodies     func() []func() string // fresh shared state + thread bodies for every execution
	Bound      int
	Check      func(x *Exec, schedule []int)
	Take       func() bool // shard ownership of first-level subtrees
	Executions int64
	Decisions  int64
	MaxPoints  int
	Err        error
}

func (e *Explorer) run(prefix []int) *Exec {
	x, err := e.S.Run(e.Bodies(), prefix)
	if err != nil && e.Err == nil {
		e.Err = err
	}
	e.Executions++
	e.Decisions += int64(len(x.Points))
	if len(x.Points) > e.MaxPoints {
		e.MaxPoints = len(x.Points)
	}
	return x
}

func (e *Explorer) Explore() {
	e.explore(nil, 0)
}

func (e *Explorer) explore(prefix []int, level int) {
	x := e.run(prefix)
	if level > 0 || e.Take == nil || true {
		e.Check(x, x.Choices())
	}
	for i := len(prefix); i < len(x.Points); i++ {
		p := x.Points[i]
		cost := x.PreemptionsBefore(i)
		if p.RunningEnabled {
			cost++ // switching away from a runnable thread is a preemption
		}
		if cost > e.Bound {
			continue
		}
		for alt := 1; alt < len(p.Enabled); alt++ {
			if level == 0 && e.Take != nil && !e.Take() {
				continue
			}
			np := append(append([]int{}, x.Choices()[:i]...), alt)
			e.explore(np, level+1)
		}
	}
}

func ScheduleString(x *Exec) string { return strings.Join(x.Log, " ") }
