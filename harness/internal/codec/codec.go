// Package codec wraps the real encoders/decoders/validator for the checks: events -> bytes, bytes -> events.
package codec

import (
	"bytes"
	"fmt"

	"github.com/kstenerud/go-concise-encoding/cbe"
	"github.com/kstenerud/go-concise-encoding/ce/events"
	"github.com/kstenerud/go-concise-encoding/configuration"
	"github.com/kstenerud/go-concise-encoding/cte"
	"github.com/kstenerud/go-concise-encoding/rules"
	"verif/harness/internal/ev"
)

type Format int

const (
	CBE Format = iota
	CTE
)

func (f Format) String() string {
	if f == CBE {
		return "cbe"
	}
	return "cte"
}

// Encode drives es through (optionally) the rules validator into the real encoder of the format.
// stage reports where a failure happened: "rules" (the validator rejected) or "encoder".
func Encode(f Format, es []ev.E, cfg *configuration.Configuration, withRules bool) (doc []byte, stage string, err error) {
	if cfg == nil {
		cfg = configuration.New()
	}
	buf := &bytes.Buffer{}
	var enc events.DataEventReceiver
	switch f {
	case CBE:
		e := cbe.NewEncoder(cfg)
		e.PrepareToEncode(buf)
		enc = e
	default:
		e := cte.NewEncoder(cfg)
		e.PrepareToEncode(buf)
		enc = e
	}
	rec := &ev.Recorder{}
	var front events.DataEventReceiver = rec
	if withRules {
		front = rules.NewRules(rec, cfg)
	}
	inside := false
	defer func() {
		if x := recover(); x != nil {
			err = fmt.Errorf("%v", x)
			if inside {
				stage = "encoder"
			} else {
				stage = "rules"
			}
			doc = buf.Bytes()
		}
	}()
	for _, e := range es {
		before := len(rec.Events)
		ev.Drive(front, e)
		inside = true
		for _, fe := range rec.Events[before:] {
			ev.Drive(enc, fe)
		}
		inside = false
	}
	return buf.Bytes(), "", nil
}

// Decode decodes doc with the real decoder of the format, through the rules validator when withRules, into a recorder.
func Decode(f Format, doc []byte, cfg *configuration.Configuration, withRules bool) (es []ev.E, err error) {
	if cfg == nil {
		cfg = configuration.New()
	}
	rec := &ev.Recorder{}
	var rcv events.DataEventReceiver = rec
	if withRules {
		rcv = rules.NewRules(rec, cfg)
	}
	defer func() {
		if x := recover(); x != nil {
			err = fmt.Errorf("escaped panic: %v", x)
			es = rec.Events
		}
	}()
	switch f {
	case CBE:
		err = cbe.NewDecoder(cfg).DecodeDocument(doc, rcv)
	default:
		err = cte.NewDecoder(cfg).DecodeDocument(doc, rcv)
	}
	return rec.Events, err
}

// ValidateEvents runs es through a fresh validator; returns the index of the rejected event or -1.
func ValidateEvents(es []ev.E, cfg *configuration.Configuration) (int, error) {
	if cfg == nil {
		cfg = configuration.New()
	}
	r := rules.NewRules(nil, cfg)
	return ev.TryDriveAll(r, es)
}
