// Package gen holds the bounded-exhaustive generators: scalar alphabets, array families, contexts, document sweeps.
package gen

import (
	"math"
	"math/big"

	"github.com/cockroachdb/apd/v2"
	compact_float "github.com/kstenerud/go-compact-float"
	compact_time "github.com/kstenerud/go-compact-time"
	"github.com/kstenerud/go-concise-encoding/ce/events"
	"verif/harness/internal/ev"
)

func Pow2(k uint) *big.Int { return new(big.Int).Lsh(big.NewInt(1), k) }

// IntValues: the integer boundary alphabet (C01/C02/C19/C22).
func IntValues() []*big.Int {
	one := big.NewInt(1)
	pos := []*big.Int{big.NewInt(1), big.NewInt(100), big.NewInt(101), big.NewInt(255), big.NewInt(256), big.NewInt(65535), big.NewInt(65536),
		new(big.Int).Sub(Pow2(32), one), Pow2(32), new(big.Int).Sub(Pow2(48), one), Pow2(48), Pow2(56), new(big.Int).Sub(Pow2(63), one), Pow2(63),
		new(big.Int).Sub(Pow2(64), one), Pow2(64), Pow2(71), new(big.Int).Add(Pow2(128), one)}
	out := []*big.Int{big.NewInt(0)}
	for _, p := range pos {
		out = append(out, p, new(big.Int).Neg(p))
	}
	return out
}

// IntForms returns every event form able to carry v.
func IntForms(v *big.Int) []ev.E {
	var out []ev.E
	if v.Sign() >= 0 && v.IsUint64() {
		out = append(out, ev.EPInt(v.Uint64()))
	}
	if v.Sign() < 0 && new(big.Int).Neg(v).IsUint64() {
		out = append(out, ev.ENInt(new(big.Int).Neg(v).Uint64()))
	}
	if v.IsInt64() {
		out = append(out, ev.EInt(v.Int64()))
	}
	out = append(out, ev.EBigInt(new(big.Int).Set(v)))
	return out
}

func bf16(bits uint16) float64 { return float64(math.Float32frombits(uint32(bits) << 16)) }

// FloatValues: binary float alphabet. stride>1 thins the bfloat16 sweep (quick tier).
func FloatValues(stride int) []float64 {
	var out []float64
	for i := 0; i < 65536; i += stride {
		out = append(out, bf16(uint16(i)))
	}
	// float32 patterns with <= 2 mantissa bits set, a few exponents; plus neighbours of float32 powers of two as float64
	for _, exp := range []uint32{0, 1, 2, 126, 127, 128, 200, 254} {
		for a := 0; a < 23; a++ {
			for b := a; b < 23; b++ {
				m := uint32(1)<<uint(a) | uint32(1)<<uint(b)
				out = append(out, float64(math.Float32frombits(exp<<23|m)))
			}
		}
	}
	for e := -149; e <= 127; e += 7 {
		p := math.Ldexp(1, e)
		out = append(out, p, math.Nextafter(p, math.Inf(1)), math.Nextafter(p, math.Inf(-1)), -p)
	}
	// every power of two of the float64 range with short significands: width selection must look at the exponent too
	for e := -1074; e <= 1023; e++ {
		p := math.Ldexp(1, e)
		out = append(out, p, -p)
		if e > -1060 {
			out = append(out, math.Ldexp(1.5, e), -math.Ldexp(1.0009765625, e), math.Ldexp(1.00390625, e))
		}
	}
	out = append(out, math.MaxFloat64, -math.MaxFloat64, math.SmallestNonzeroFloat64, -math.SmallestNonzeroFloat64,
		math.Float64frombits(0x000fffffffffffff), math.Float64frombits(0x0010000000000000), // largest subnormal, smallest normal
		math.MaxFloat32, math.SmallestNonzeroFloat32, 0, math.Copysign(0, -1), math.Inf(1), math.Inf(-1),
		0.1, 1.0/3, 1e15, 1e16, 123456789.125, 9007199254740993, 1.7976931348623157e308, 5e-324, 2.2250738585072014e-308,
		math.NaN(), math.Float64frombits(0x7ff0000000000001), math.Float64frombits(0x7ff8000000000123), math.Float64frombits(0xfff8000000000000))
	return out
}

func DFloatValues() []compact_float.DFloat {
	var out []compact_float.DFloat
	coefs := []int64{1, 15, 9, 99, 999999999, 1000000001, 123456789012345678, math.MaxInt64, -1, -15, -math.MaxInt64}
	exps := []int32{0, 1, -1, 19, -19, 400, -400}
	for _, c := range coefs {
		for _, e := range exps {
			out = append(out, compact_float.DFloatValue(e, c))
		}
	}
	out = append(out, compact_float.Zero(), compact_float.NegativeZero(), compact_float.Infinity(), compact_float.NegativeInfinity(),
		compact_float.QuietNaN(), compact_float.SignalingNaN(), compact_float.DFloatValue(-2, 150), compact_float.DFloatValue(3, 0))
	return out
}

func BigFloatValues() []*big.Float {
	var out []*big.Float
	for _, prec := range []uint{24, 53, 64, 200} {
		for _, s := range []string{"1.5", "-1.5", "0.1", "1e40", "-1e-40", "3.141592653589793238462643383279502884197", "12345678901234567890123456789"} {
			f, _, err := big.ParseFloat(s, 10, prec, big.ToNearestEven)
			if err == nil {
				out = append(out, f)
			}
		}
	}
	out = append(out, new(big.Float).SetInf(false), new(big.Float).SetInf(true), new(big.Float), new(big.Float).Neg(new(big.Float)), nil)
	return out
}

func BigDecimalValues() []*apd.Decimal {
	var out []*apd.Decimal
	for _, s := range []string{"1", "-1", "1.5", "-0", "0", "1E+400", "1E-400", "1234567890123456789", "12345678901234567890", "-12345678901234567890.5",
		"1234567890123456789012345678901234567890", "0.000000000000000000000000000000000000001234", "9223372036854775807", "9223372036854775808",
		"NaN", "sNaN", "Infinity", "-Infinity", "1.50", "100"} {
		d, _, err := apd.NewFromString(s)
		if err == nil {
			out = append(out, d)
		}
	}
	out = append(out, nil)
	return out
}

func UIDValues() [][]byte {
	return [][]byte{
		make([]byte, 16),
		{0xff, 0xff, 0xff, 0xff, 0xff, 0xff, 0xff, 0xff, 0xff, 0xff, 0xff, 0xff, 0xff, 0xff, 0xff, 0xff},
		{0x00, 0x11, 0x22, 0x33, 0x44, 0x55, 0x66, 0x77, 0x88, 0x99, 0xaa, 0xbb, 0xcc, 0xdd, 0xee, 0xff},
	}
}

// Timezones: every time-zone form. latlongWindow adds every hundredth in ±window around 0 (0 = only a few).
func Timezones(latlongWindow int) []compact_time.Timezone {
	out := []compact_time.Timezone{compact_time.TZAtUTC(), compact_time.TZLocal()}
	for _, m := range []int{1, -1, 59, 60, -60, 61, 330, -570, 720, -720, 1439, -1439} {
		out = append(out, compact_time.TZWithMiutesOffsetFromUTC(m))
	}
	for _, a := range []string{"Europe/Berlin", "America/Argentina/Buenos_Aires", "E/Berlin", "M/Los_Angeles", "Etc/UTC", "Z", "L", "Local", "Zero", "Asia/Tokyo", "UTC", "Etc/GMT+5"} {
		out = append(out, compact_time.TZAtAreaLocation(a))
	}
	out = append(out, compact_time.TZAtLatLong(0, 0), compact_time.TZAtLatLong(9000, 18000), compact_time.TZAtLatLong(-9000, -18000), compact_time.TZAtLatLong(1234, -5678),
		compact_time.TZAtLatLong(29, -29), compact_time.TZAtLatLong(-1, 1), compact_time.TZAtLatLong(5012, 810))
	for i := -latlongWindow; i <= latlongWindow; i++ {
		out = append(out, compact_time.TZAtLatLong(i, -i), compact_time.TZAtLatLong(100-i, 9000+i))
	}
	return out
}

func TimeValues(latlongWindow int) []compact_time.Time {
	var out []compact_time.Time
	for _, y := range []int{-2000, -1, 1, 1999, 2000, 2024, 9999, 100000} {
		for _, md := range [][2]int{{1, 1}, {12, 31}, {2, 29}, {6, 15}} {
			if md[0] == 2 && md[1] == 29 && y%4 != 0 {
				continue
			}
			out = append(out, compact_time.NewDate(y, md[0], md[1]))
		}
	}
	tzs := Timezones(latlongWindow)
	hms := [][4]int{{0, 0, 0, 0}, {23, 59, 59, 999999999}, {12, 30, 15, 1}, {1, 2, 3, 10}, {8, 0, 60, 0}, {0, 0, 0, 100000000}, {0, 0, 0, 999000000}, {0, 0, 0, 123456000}}
	for i, tz := range tzs {
		h := hms[i%len(hms)]
		out = append(out, compact_time.NewTime(h[0], h[1], h[2], h[3], tz))
		out = append(out, compact_time.NewTimestamp(2000+i%30, 1+i%12, 1+i%28, h[0], h[1], h[2], h[3], tz))
	}
	// area/location names of every length 1..70 in four time shapes (encoded sizes cross every scratch-buffer size)
	for n := 1; n <= 70; n++ {
		name := []byte("A")
		for len(name) < n {
			if len(name) == 3 || len(name) == 20 {
				name = append(name, '/')
			} else {
				name = append(name, byte('a'+len(name)%26))
			}
		}
		if name[len(name)-1] == '/' {
			name[len(name)-1] = 'q'
		}
		tz := compact_time.TZAtAreaLocation(string(name))
		out = append(out, compact_time.NewTime(10, 0, 1, 0, tz), compact_time.NewTime(10, 0, 1, 930000000, tz),
			compact_time.NewTimestamp(2020, 1, 15, 10, 0, 1, 0, tz), compact_time.NewTimestamp(2020, 1, 15, 10, 0, 1, 123456789, tz))
	}
	for _, h := range hms {
		out = append(out, compact_time.NewTime(h[0], h[1], h[2], h[3], compact_time.TZAtUTC()))
		out = append(out, compact_time.NewTimestamp(-5, 12, 31, h[0], h[1], h[2], h[3], compact_time.TZAtAreaLocation("Europe/Berlin")))
		out = append(out, compact_time.NewTimestamp(12345, 1, 1, h[0], h[1], h[2], h[3], compact_time.TZLocal()))
	}
	return out
}

// Scalars returns the scalar value alphabet as events. thin>1 reduces the binary float sweep.
func Scalars(floatStride int, latlongWindow int) []ev.E {
	var out []ev.E
	out = append(out, ev.ENull(), ev.ETrue(), ev.EFalse(), ev.EBool(true), ev.EBool(false), ev.ENaN(true), ev.ENaN(false), ev.ENInt(0))
	for _, v := range IntValues() {
		out = append(out, IntForms(v)...)
	}
	for _, f := range FloatValues(floatStride) {
		out = append(out, ev.EFloat(f))
	}
	for _, d := range DFloatValues() {
		out = append(out, ev.EDFloat(d))
	}
	for _, f := range BigFloatValues() {
		out = append(out, ev.EBigFloat(f))
	}
	for _, d := range BigDecimalValues() {
		out = append(out, ev.EBigDec(d))
	}
	out = append(out, ev.EBigInt(nil))
	for _, u := range UIDValues() {
		out = append(out, ev.EUID(u))
	}
	for _, t := range TimeValues(latlongWindow) {
		out = append(out, ev.ETime(t))
	}
	return out
}

// Context wraps a value (sequence of events) into a complete document.
type Context struct {
	Name    string
	Pre     []ev.E
	Post    []ev.E
	KeyOnly bool // position requires a keyable value
	NonNull bool
}

func (cx Context) Wrap(seq ...ev.E) []ev.E {
	out := append([]ev.E{ev.EBD(), ev.EV(0)}, cx.Pre...)
	out = append(out, seq...)
	out = append(out, cx.Post...)
	return append(out, ev.EED())
}

func Contexts() []Context {
	return []Context{
		{Name: "top"},
		{Name: "list", Pre: []ev.E{ev.EList()}, Post: []ev.E{ev.EEnd()}},
		{Name: "list2", Pre: []ev.E{ev.EList(), ev.EPInt(1)}, Post: []ev.E{ev.EStr("z"), ev.EEnd()}},
		{Name: "mapkey", Pre: []ev.E{ev.EMap()}, Post: []ev.E{ev.ENull(), ev.EEnd()}, KeyOnly: true},
		{Name: "mapvalue", Pre: []ev.E{ev.EMap(), ev.EStr("k")}, Post: []ev.E{ev.EEnd()}},
		{Name: "marked", Pre: []ev.E{ev.EList(), ev.EMarker("m")}, Post: []ev.E{ev.ERef("m"), ev.EEnd()}},
		{Name: "nodevalue", Pre: []ev.E{ev.ENode()}, Post: []ev.E{ev.EPInt(1), ev.EEnd()}},
		{Name: "nodechild", Pre: []ev.E{ev.ENode(), ev.ENull()}, Post: []ev.E{ev.EEnd()}},
		{Name: "edgesrc", Pre: []ev.E{ev.EEdge()}, Post: []ev.E{ev.ENull(), ev.EPInt(1), ev.EEnd()}, NonNull: true},
		{Name: "edgedst", Pre: []ev.E{ev.EEdge(), ev.EPInt(1), ev.ENull()}, Post: []ev.E{ev.EEnd()}, NonNull: true},
		{Name: "record", Pre: []ev.E{ev.ERecType("r"), ev.EStr("f"), ev.EEnd(), ev.ERec("r")}, Post: []ev.E{ev.EEnd()}},
	}
}

// ArrayKinds lists every array type deliverable through the generic array API plus media/custom.
type ArrayKind struct {
	Name      string
	AT        events.ArrayType
	ElemBytes int // 0 = bits
	Text      bool
}

func ArrayKinds() []ArrayKind {
	return []ArrayKind{
		{"String", events.ArrayTypeString, 1, true}, {"ResourceID", events.ArrayTypeResourceID, 1, true}, {"RemoteReference", events.ArrayTypeReferenceRemote, 1, true},
		{"CustomText", events.ArrayTypeCustomText, 1, true}, {"CustomBinary", events.ArrayTypeCustomBinary, 1, false}, {"Media", events.ArrayTypeMedia, 1, false},
		{"Bit", events.ArrayTypeBit, 0, false}, {"Uint8", events.ArrayTypeUint8, 1, false}, {"Uint16", events.ArrayTypeUint16, 2, false}, {"Uint32", events.ArrayTypeUint32, 4, false},
		{"Uint64", events.ArrayTypeUint64, 8, false}, {"Int8", events.ArrayTypeInt8, 1, false}, {"Int16", events.ArrayTypeInt16, 2, false}, {"Int32", events.ArrayTypeInt32, 4, false},
		{"Int64", events.ArrayTypeInt64, 8, false}, {"Float16", events.ArrayTypeFloat16, 2, false}, {"Float32", events.ArrayTypeFloat32, 4, false}, {"Float64", events.ArrayTypeFloat64, 8, false},
		{"UID", events.ArrayTypeUID, 16, false},
	}
}

func (k ArrayKind) Begin() ev.E {
	switch k.AT {
	case events.ArrayTypeCustomText, events.ArrayTypeCustomBinary:
		return ev.ECBegin(k.AT, 3)
	case events.ArrayTypeMedia:
		return ev.EMBegin("a/b")
	}
	return ev.EABegin(k.AT)
}

// Whole returns the whole-array event forms for content.
func (k ArrayKind) Whole(content []byte, elems int) []ev.E {
	switch k.AT {
	case events.ArrayTypeCustomText:
		return []ev.E{ev.ECustomText(3, string(content))}
	case events.ArrayTypeCustomBinary:
		return []ev.E{ev.ECustomBin(3, content)}
	case events.ArrayTypeMedia:
		return []ev.E{ev.EMedia("a/b", content)}
	case events.ArrayTypeString, events.ArrayTypeResourceID, events.ArrayTypeReferenceRemote:
		return []ev.E{ev.EArr(k.AT, uint64(len(content)), content), ev.ESArr(k.AT, string(content))}
	}
	return []ev.E{ev.EArr(k.AT, uint64(elems), content)}
}

// Content returns deterministic content for n elements (text kinds: ASCII letters with some multi-byte characters).
func (k ArrayKind) Content(n int) []byte {
	if k.Text {
		src := []rune("abcé€d𝄞efghijklmnopqrstuvwxyzABCDEFGHIJKLMN")
		var b []byte
		i := 0
		for len(b) < n {
			r := src[i%len(src)]
			i++
			if len(b)+len(string(r)) > n {
				r = 'x'
			}
			b = append(b, []byte(string(r))...)
		}
		return b
	}
	nb := n * k.ElemBytes
	if k.ElemBytes == 0 {
		nb = (n + 7) / 8
	}
	b := make([]byte, nb)
	for i := range b {
		b[i] = byte(0x35*(i+1) + 7)
	}
	if k.ElemBytes == 0 && n%8 != 0 {
		b[nb-1] &= byte(1<<(uint(n)%8)) - 1
	}
	if k.AT == events.ArrayTypeFloat16 || k.AT == events.ArrayTypeFloat32 || k.AT == events.ArrayTypeFloat64 {
		// avoid NaN patterns: clear the top exponent bit of every element
		for i := k.ElemBytes - 1; i < nb; i += k.ElemBytes {
			b[i] &= 0xbf
		}
	}
	return b
}

// Representatives: one value (possibly a multi-event sequence) per encoding form, used by the pair sweep: every ordered
// pair (a, b) is encoded in one document so that state shared between consecutive values (scratch buffers, cursors,
// pending headers) is exercised.
func Representatives() [][]ev.E {
	one := func(e ev.E) []ev.E { return []ev.E{e} }
	var out [][]ev.E
	for _, e := range []ev.E{ev.ENull(), ev.ETrue(), ev.EPInt(5), ev.EPInt(200), ev.EPInt(70000), ev.EPInt(1 << 33), ev.EPInt(0x123456789a), ev.EPInt(0xffffffffffff),
		ev.EPInt(1<<56 + 1), ev.EPInt(1<<63 + 5), ev.ENInt(7), ev.ENInt(300), ev.ENInt(0xfedcba9876), ev.ENInt(1<<63 + 5), ev.EBigInt(Pow2(70)), ev.EBigInt(new(big.Int).Neg(Pow2(130))),
		ev.EFloat(1.5), ev.EFloat(float64(float32(0.1))), ev.EFloat(0.1), ev.ENaN(false), ev.EFloat(math.Inf(-1)),
		ev.EDFloat(compact_float.DFloatValue(-1, 15)), ev.EDFloat(compact_float.DFloatValue(-30, 123456789012345678)),
		ev.EUID(UIDValues()[2]),
		ev.ETime(compact_time.NewDate(2020, 1, 15)), ev.ETime(compact_time.NewTime(10, 0, 1, 0, compact_time.TZAtUTC())),
		ev.ETime(compact_time.NewTimestamp(2020, 1, 15, 10, 0, 1, 123456789, compact_time.TZAtAreaLocation("Europe/Berlin"))),
		ev.ETime(compact_time.NewTime(1, 2, 3, 4000, compact_time.TZAtLatLong(1234, -5678))),
		ev.ETime(compact_time.NewTimestamp(1999, 12, 31, 23, 59, 59, 0, compact_time.TZWithMiutesOffsetFromUTC(-570))),
		ev.EStr(""), ev.EStr("a"), ev.EStr("abcdefgh"), ev.EStr("0123456789abcde"), ev.EStr("0123456789abcdef"), ev.EStr("é€𝄞 forty characters long string.........."),
		ev.ESArr(events.ArrayTypeResourceID, "http://x.y/z"), ev.ESArr(events.ArrayTypeReferenceRemote, "r"),
		ev.EMedia("a/b", []byte{1, 2, 3}), ev.ECustomBin(5, []byte{9, 8, 7, 6}),
	} {
		out = append(out, one(e))
	}
	for _, k := range ArrayKinds() {
		if k.Text || k.AT == events.ArrayTypeMedia || k.AT == events.ArrayTypeCustomBinary {
			continue
		}
		for _, n := range []int{3, 17} {
			out = append(out, one(k.Whole(k.Content(n), n)[0]))
		}
	}
	// chunked forms with split data
	out = append(out, []ev.E{ev.EABegin(events.ArrayTypeString), ev.EChunk(2, true), ev.EData([]byte("ab")), ev.EChunk(3, false), ev.EData([]byte("c")), ev.EData([]byte("de"))})
	k16 := ArrayKinds()[8]
	c := k16.Content(4)
	out = append(out, []ev.E{ev.EABegin(events.ArrayTypeUint16), ev.EChunk(1, true), ev.EData(c[:1]), ev.EData(c[1:2]), ev.EChunk(3, false), ev.EData(c[2:5]), ev.EData(c[5:])})
	out = append(out, []ev.E{ev.ECBegin(events.ArrayTypeCustomBinary, 2), ev.EChunk(2, false), ev.EData([]byte{1}), ev.EData([]byte{2})})
	out = append(out, []ev.E{ev.EMBegin("a/b"), ev.EChunk(2, true), ev.EData([]byte{1, 2}), ev.EChunk(2, false), ev.EData([]byte{3, 4})})
	// empty continued chunks in the middle of a string and of a numeric array
	out = append(out, []ev.E{ev.EABegin(events.ArrayTypeString), ev.EChunk(3, true), ev.EData([]byte("abc")), ev.EChunk(0, true), ev.EChunk(2, false), ev.EData([]byte("de"))})
	out = append(out, []ev.E{ev.EABegin(events.ArrayTypeUint16), ev.EChunk(0, true), ev.EChunk(1, true), ev.EData([]byte{1, 2}), ev.EChunk(0, true), ev.EChunk(1, false), ev.EData([]byte{3, 4})})
	out = append(out, []ev.E{ev.EList(), ev.EEnd()}, []ev.E{ev.EMap(), ev.EStr("k"), ev.EPInt(1), ev.EEnd()})
	return out
}
