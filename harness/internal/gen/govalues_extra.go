package gen

import (
	"fmt"
	"math/big"
	"reflect"
	"strings"
	"time"

	"github.com/cockroachdb/apd/v2"
	"github.com/kstenerud/go-concise-encoding/types"
)

// Declared struct types with embedding up to four levels (reflect.StructOf cannot build embedded fields with methods,
// and index paths of depth >= 3 are what distinguishes embedded traversal bugs).
type EmbL4 struct {
	P int
	Q string
	R float64
}
type EmbL3 struct {
	EmbL4
	M uint16
	N []int32
}
type EmbL2 struct {
	EmbL3
	K bool
	L *int
}
type EmbL1 struct {
	A string
	EmbL2
	Z int8
}
type EmbTwo struct {
	EmbL4
	Other EmbL3
	Tail  []EmbL4
}

// ExtraValues: shapes the constructor product does not reach: deep embedding, two different kinds side by side in one
// document (state shared between consecutive values), times in zones of every name length, extreme big-number forms.
func ExtraValues() []GV {
	var out []GV
	seven := 7
	out = append(out,
		GV{"embedded#0", "embedded", EmbL1{A: "a", EmbL2: EmbL2{EmbL3: EmbL3{EmbL4: EmbL4{4, "q5", 6.5}, M: 7, N: []int32{8, 9}}, K: true, L: &seven}, Z: -1}},
		GV{"embedded#1", "embedded", &EmbL1{A: "", EmbL2: EmbL2{EmbL3: EmbL3{EmbL4: EmbL4{-4, "", -0.25}, M: 65535}}, Z: 127}},
		GV{"embedded#2", "embedded", []EmbL2{{EmbL3: EmbL3{EmbL4: EmbL4{1, "x", 2}, M: 3, N: []int32{4}}, K: false}, {EmbL3: EmbL3{EmbL4: EmbL4{5, "y", 6}, M: 7}, K: true}}},
		GV{"embedded#3", "embedded", EmbTwo{EmbL4: EmbL4{1, "one", 1.5}, Other: EmbL3{EmbL4: EmbL4{2, "two", 2.5}, M: 2, N: []int32{2}}, Tail: []EmbL4{{3, "three", 3.5}, {4, "four", 4.5}}}},
		GV{"embedded#4", "embedded", map[string]EmbL3{"k": {EmbL4: EmbL4{9, "nine", 9.5}, M: 9, N: []int32{9, 9}}}},
	)
	// map keys: every integer key kind with k and -k on both sides of the encodings' small-int / width boundaries
	out = append(out,
		GV{"mapkeys#i32", "map-keys", map[int32]string{-5: "a", 5: "b", -300: "c", 300: "d", 7: "e", -100: "f", 100: "g", -101: "h", 101: "i"}},
		GV{"mapkeys#i64", "map-keys", map[int64]uint8{-1 << 32: 1, 1 << 32: 2, -1 << 63: 3, 1<<63 - 1: 4, -65536: 5, 65536: 6}},
		GV{"mapkeys#i8", "map-keys", map[int8]bool{-128: true, 127: false, -1: true, 1: false, 0: true}},
		GV{"mapkeys#u64", "map-keys", map[uint64]int{0: 0, 1<<64 - 1: -1, 1 << 63: 2, 255: 3, 256: 4}},
		GV{"mapkeys#bool", "map-keys", map[bool]int{true: 1, false: 0}}, // float keys are not keyable in this implementation's rules
		GV{"mapkeys#uid", "map-keys", map[types.UID]string{{1, 2, 3, 4, 5, 6, 7, 8, 9, 10, 11, 12, 13, 14, 15, 16}: "a", {}: "b"}},
		GV{"mapkeys#iface", "map-keys", map[interface{}]interface{}{int64(-300): "a", int64(300): "b", "300": "c", "-300": "d", true: "e", "true": "f"}},
		GV{"mapkeys#str", "map-keys", map[string]int{"": 0, "a": 1, "A": 2, "a ": 3, "é": 4, "é": 5}},
	)
	// exported field names with non-ASCII upper-case letters (first rune and inside), and a nil pointer between fields
	out = append(out,
		GV{"unicode-fields#0", "unicode-field-names", struct {
			Ärger int
			NaÏve string
			Größe float64
			Ωmega []int16
		}{5, "x", 1.5, []int16{1, 2}}},
		GV{"nilptr-between-fields#0", "nil-pointer-field", struct {
			A int
			P *int
			Q *string
			B string
		}{1, nil, nil, "b"}},
	)
	// long arrays: payloads on both sides of 64 KiB (the binary reader's read-ahead step) and beyond two steps
	for _, n := range []int{65535, 65536, 65537, 140000} {
		u32 := make([]uint32, n/4+1)
		for i := range u32 {
			u32[i] = uint32(i)*2654435761 + 1
		}
		out = append(out,
			GV{fmt.Sprintf("long#bytes%d", n), "long-array", seqBytes(n)},
			GV{fmt.Sprintf("long#str%d", n), "long-array", strings.Repeat("0123456789abcdeé", n/17+1)[:n/17*17]},
			GV{fmt.Sprintf("long#u32-%d", n), "long-array", struct {
				A []uint32
				B string
			}{u32, "tail"}},
		)
	}
	// pair structs: every ordered pair of representative kinds as two fields of one struct
	reps := []struct {
		name string
		v    interface{}
	}{
		{"u32x20", numSlices(20)[1]}, {"u16x17", numSlices(17)[0]}, {"f64x16", numSlices(16)[10]}, {"i64x3", numSlices(3)[7]}, {"u64x40", numSlices(40)[2]},
		{"bytes3", []byte{1, 2, 3}}, {"bytes40", seqBytes(40)}, {"str40", "0123456789012345678901234567890123456789"}, {"str3", "abc"},
		{"media", types.Media{MediaType: "a/b", Data: []byte{9, 8, 7}}}, {"media20", types.Media{MediaType: "application/x-t", Data: seqBytes(20)}},
		{"uid", types.UID{1, 2, 3, 4, 5, 6, 7, 8, 9, 10, 11, 12, 13, 14, 15, 16}}, {"int", 0x123456789a}, {"f64", 0.1},
		{"pbig", bigI("-18446744073709551615")}, {"url", mustURL("http://x.y/z")}, {"list", []interface{}{int64(1), "two"}},
		{"time", time.Date(2020, 1, 15, 13, 41, 0, 599000, time.UTC)},
	}
	for _, a := range reps {
		for _, b := range reps {
			st := reflect.StructOf([]reflect.StructField{{Name: "First", Type: reflect.TypeOf(a.v)}, {Name: "Second", Type: reflect.TypeOf(b.v)}})
			s := reflect.New(st).Elem()
			s.Field(0).Set(reflect.ValueOf(freshCopy(a.v)))
			s.Field(1).Set(reflect.ValueOf(freshCopy(b.v)))
			out = append(out, GV{fmt.Sprintf("pair:%s+%s", a.name, b.name), "pair(" + a.name + "+" + b.name + ")", s.Interface()})
		}
	}
	// time.Time in zones of every name length, whole seconds and with nanoseconds
	for _, zn := range ZoneNames {
		loc, err := time.LoadLocation(zn)
		if err != nil {
			continue
		}
		out = append(out, GV{"ztime:" + zn, "time-in-named-zone", time.Date(2021, 3, 4, 10, 0, 1, 0, loc)})
		out = append(out, GV{"ztime-ns:" + zn, "time-in-named-zone", []time.Time{time.Date(2021, 3, 4, 10, 0, 1, 123456789, loc), time.Date(1999, 12, 31, 23, 59, 59, 930000000, loc)}})
	}
	return out
}

func freshCopy(v interface{}) interface{} {
	switch x := v.(type) {
	case *big.Int:
		return new(big.Int).Set(x)
	case []byte:
		return append([]byte{}, x...)
	}
	return v
}

// ExtremeBigValues: big-number forms beyond the ordinary windows (very wide precisions, zero with a scale).
func ExtremeBigValues() []GV {
	var out []GV
	for _, prec := range []uint{300, 334, 335, 400, 512, 1024} {
		for _, s := range []string{"1.5", "0.1", "-3.14159265358979323846264338327950288419716939937510582097494459", "1e100"} {
			out = append(out, GV{fmt.Sprintf("pbigf-wide:%s/%d", s, prec), "pbigfloat-wide", bigF(s, prec)})
			out = append(out, GV{fmt.Sprintf("pbigf-wide:slice:%s/%d", s, prec), "pbigfloat-wide-in-slice", []*big.Float{bigF(s, prec)}})
		}
	}
	for _, s := range []string{"0.00", "0E+5", "-0E+3", "-0.000", "0E-400", "1.000", "100E-2", "-1.50E+3"} {
		out = append(out, GV{"pdec-scaled:" + s, "pdecimal-scaled", apdD(s)})
		out = append(out, GV{"pdec-scaled:struct:" + s, "pdecimal-scaled-in-struct", &struct {
			D *apd.Decimal
			N int
		}{apdD(s), 1}})
	}
	return out
}
