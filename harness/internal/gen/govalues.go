package gen

import (
	"fmt"
	"math"
	"math/big"
	"net/url"
	"reflect"
	"strings"
	"time"
	_ "time/tzdata"

	"github.com/cockroachdb/apd/v2"
	compact_float "github.com/kstenerud/go-compact-float"
	compact_time "github.com/kstenerud/go-compact-time"
	"github.com/kstenerud/go-concise-encoding/types"
)

// GV is one Go value of the marshal corpus. Class is the discriminator used in violation signatures: the shape of the
// type (constructors + leaf kind), without the concrete value.
type GV struct {
	Name  string
	Class string
	V     interface{}
}

type leaf struct {
	kind string
	vals []interface{}
}

func bigI(s string) *big.Int {
	v, ok := new(big.Int).SetString(s, 0)
	if !ok {
		panic(s)
	}
	return v
}

func bigF(s string, prec uint) *big.Float {
	f, _, err := big.ParseFloat(s, 10, prec, big.ToNearestEven)
	if err != nil {
		panic(err)
	}
	return f
}

func apdD(s string) *apd.Decimal {
	d, _, err := apd.NewFromString(s)
	if err != nil {
		panic(err)
	}
	return d
}

func mustURL(s string) *url.URL {
	u, err := url.Parse(s)
	if err != nil {
		panic(err)
	}
	return u
}

func seqBytes(n int) []byte {
	b := make([]byte, n)
	for i := range b {
		b[i] = byte(0x35*(i+1) + 7)
	}
	return b
}

// numeric slices of every element kind at the given length (values cross sign and width boundaries)
func numSlices(n int) []interface{} {
	u16 := make([]uint16, n)
	u32 := make([]uint32, n)
	u64 := make([]uint64, n)
	u := make([]uint, n)
	i8 := make([]int8, n)
	i16 := make([]int16, n)
	i32 := make([]int32, n)
	i64 := make([]int64, n)
	i := make([]int, n)
	f32 := make([]float32, n)
	f64 := make([]float64, n)
	for k := 0; k < n; k++ {
		x := uint64(k+1) * 0x9E3779B97F4A7C15
		u16[k], u32[k], u64[k], u[k] = uint16(x>>48), uint32(x>>32), x, uint(x>>7)
		i8[k], i16[k], i32[k], i64[k], i[k] = int8(x>>56), int16(x>>48), int32(x>>32), int64(x), int(int64(x)>>9)
		f32[k] = float32(k)*1.25 - 3
		f64[k] = float64(k)*0.1 - 1e10
	}
	if n > 0 {
		u16[0], u32[0], u64[0] = math.MaxUint16, math.MaxUint32, math.MaxUint64
		i8[0], i16[0], i32[0], i64[0] = math.MinInt8, math.MinInt16, math.MinInt32, math.MinInt64
		f32[0], f64[0] = math.MaxFloat32, math.SmallestNonzeroFloat64
	}
	return []interface{}{u16, u32, u64, u, i8, i16, i32, i64, i, f32, f64}
}

func boolSlice(n int) []bool {
	b := make([]bool, n)
	for k := range b {
		b[k] = (k*7+1)%3 != 0
	}
	return b
}

func leaves(level int) []leaf {
	berlin, err := time.LoadLocation("Europe/Berlin")
	if err != nil {
		panic(err)
	}
	ls := []leaf{
		{"bool", []interface{}{false, true}},
		{"int8", []interface{}{int8(-128), int8(127), int8(0)}},
		{"int16", []interface{}{int16(-32768), int16(32767)}},
		{"int32", []interface{}{int32(math.MinInt32), int32(math.MaxInt32), int32(-1)}},
		{"int64", []interface{}{int64(math.MinInt64), int64(math.MaxInt64), int64(-1), int64(1 << 40)}},
		{"int", []interface{}{-5, 1 << 40, 0}},
		{"uint8", []interface{}{uint8(0), uint8(255), uint8(101)}},
		{"uint16", []interface{}{uint16(65535), uint16(256)}},
		{"uint32", []interface{}{uint32(math.MaxUint32), uint32(65536)}},
		{"uint64", []interface{}{uint64(math.MaxUint64), uint64(1 << 63), uint64(1<<63 + 1), uint64(0xffffffffffff)}},
		{"uint", []interface{}{uint(7), uint(1 << 33)}},
		{"float32", []interface{}{float32(1.5), float32(-0.1), float32(math.MaxFloat32), float32(math.SmallestNonzeroFloat32), float32(math.Inf(1)), float32(math.NaN())}},
		{"float64", []interface{}{0.1, 1e300, -2.5, math.Inf(-1), math.NaN(), math.Copysign(0, -1), 1.0, 4e-320}},
		{"string", []interface{}{"", "a", "héllo €𝄞 \"q\" \\ \n\t", strings.Repeat("0123456789", 4), "0123456789abcde", "0123456789abcdef"}},
		{"bytes", []interface{}{[]byte(nil), []byte{}, []byte{1, 2, 3}, seqBytes(15), seqBytes(16), seqBytes(40)}},
		{"bytearray", []interface{}{[3]byte{1, 2, 3}, [0]byte{}, [17]byte{9, 8, 7}}},
		{"bools", []interface{}{[]bool(nil), boolSlice(0), boolSlice(1), boolSlice(7), boolSlice(8), boolSlice(9), boolSlice(17)}},
		{"boolarray", []interface{}{[3]bool{true, false, true}, [9]bool{true, true, false, false, true, false, true, true, true}}},
		{"time", []interface{}{time.Date(2020, 1, 15, 13, 41, 0, 599000, time.UTC), time.Date(1999, 12, 31, 23, 59, 59, 999999999, berlin), time.Date(-200, 2, 28, 0, 0, 0, 0, time.UTC),
			time.Date(2024, 6, 1, 8, 0, 0, 1, time.Local)}},
		{"time-fixedzone", []interface{}{time.Date(2020, 1, 15, 13, 41, 0, 0, time.FixedZone("", -9*3600-1800))}},
		{"ctime", []interface{}{compact_time.NewDate(2020, 1, 15), compact_time.NewTime(1, 2, 3, 4000, compact_time.TZAtAreaLocation("Asia/Tokyo")),
			compact_time.NewTimestamp(2020, 1, 15, 13, 41, 0, 599000, compact_time.TZAtLatLong(1234, -5678)), compact_time.NewTimestamp(-5, 12, 31, 23, 59, 60, 0, compact_time.TZWithMiutesOffsetFromUTC(330))}},
		{"bigint", []interface{}{*bigI("0"), *bigI("5"), *bigI("-5"), *bigI("9223372036854775808"), *bigI("-9223372036854775808"), *bigI("-9223372036854775809"), *bigI("18446744073709551615"),
			*bigI("-18446744073709551615"), *bigI("18446744073709551616"), *bigI("-1180591620717411303424"), *bigI("0x100000000000000000000000000000001")}},
		{"pbigint", []interface{}{(*big.Int)(nil), bigI("5"), bigI("-5"), bigI("-9223372036854775808"), bigI("-9223372036854775813"), bigI("-18446744073709551615"), bigI("18446744073709551616"), bigI("-1180591620717411303424")}},
		{"bigfloat", []interface{}{*bigF("1.5", 53), *bigF("-1e40", 53), *bigF("0.1", 24)}},
		{"pbigfloat", []interface{}{(*big.Float)(nil), bigF("1.5", 53), bigF("-0.25", 200), bigF("1e-40", 64), bigF("3.141592653589793238462643383279", 120)}},
		{"decimal", []interface{}{*apdD("1.5"), *apdD("-12345678901234567890.5"), *apdD("1E+400")}},
		{"pdecimal", []interface{}{(*apd.Decimal)(nil), apdD("1.5"), apdD("-0.001"), apdD("1234567890123456789012345678901234567890"), apdD("-1E-400")}},
		{"dfloat", []interface{}{compact_float.DFloatValue(-1, 15), compact_float.DFloatValue(400, -7), compact_float.DFloatValue(0, 0), compact_float.DFloatValue(-20, 123456789012345678)}},
		{"url", []interface{}{*mustURL("http://x.y/z?q=1#f"), *mustURL("mailto:a@b.c")}},
		{"purl", []interface{}{(*url.URL)(nil), mustURL("https://example.com/a/b"), mustURL("urn:x:y")}},
		{"uid", []interface{}{types.UID{0, 1, 2, 3, 4, 5, 6, 7, 8, 9, 10, 11, 12, 13, 14, 15}, types.UID{}}},
		{"media", []interface{}{types.Media{MediaType: "a/b", Data: []byte{1, 2}}, types.Media{MediaType: "application/x-test", Data: seqBytes(20)}, types.Media{MediaType: "t/e", Data: []byte{}}}},
		{"node", []interface{}{types.Node{Value: "v", Children: []interface{}{int64(1), "c", types.Node{Value: int64(2), Children: []interface{}{}}}}, types.Node{Value: int64(1), Children: []interface{}{}}}},
		{"edge", []interface{}{types.Edge{Source: "a", Description: nil, Destination: int64(2)}, types.Edge{Source: int64(1), Description: "d", Destination: []interface{}{int64(1)}}}},
		{"iface", []interface{}{interface{}(nil), interface{}(true), interface{}(int64(-7)), interface{}(uint64(1 << 63)), interface{}(1.25), interface{}("s"),
			interface{}([]interface{}{int64(1), "x", nil}), interface{}(map[interface{}]interface{}{"k": int64(1)}), interface{}([]byte{1, 2}), interface{}([]uint16{1, 2})}},
	}
	for _, n := range []int{0, 1, 3, 15, 16, 17, 40} {
		if level == 0 && (n == 15 || n == 40) {
			continue
		}
		for _, s := range numSlices(n) {
			k := reflect.TypeOf(s).Elem().Kind().String() + "s"
			found := false
			for i := range ls {
				if ls[i].kind == k {
					ls[i].vals = append(ls[i].vals, s)
					found = true
				}
			}
			if !found {
				ls = append(ls, leaf{k, []interface{}{s}})
			}
		}
	}
	// numeric arrays
	ls = append(ls, leaf{"numarray", []interface{}{[2]uint16{1, 65535}, [3]int32{-1, 0, 7}, [2]float64{0.5, -1e9}, [17]uint32{1, 2, 3, 4, 5, 6, 7, 8, 9, 10, 11, 12, 13, 14, 15, 16, 17}, [2]int64{math.MinInt64, 5}, [3]float32{1.5, 2.5, -3}}})
	return ls
}

// wrap applies one type constructor to value v (of static type t); returns nil when not applicable.
type ctor struct {
	name string
	f    func(t reflect.Type, vs []reflect.Value) (reflect.Value, bool)
}

func ctors() []ctor {
	strT := reflect.TypeOf("")
	intT := reflect.TypeOf(int(0))
	return []ctor{
		{"ptr", func(t reflect.Type, vs []reflect.Value) (reflect.Value, bool) {
			if t.Kind() == reflect.Ptr || t.Kind() == reflect.Interface {
				return reflect.Value{}, false // pointer to pointer/interface: outside the listed kinds
			}
			p := reflect.New(t)
			p.Elem().Set(vs[0])
			return p, true
		}},
		{"slice", func(t reflect.Type, vs []reflect.Value) (reflect.Value, bool) {
			s := reflect.MakeSlice(reflect.SliceOf(t), 0, len(vs))
			for _, v := range vs {
				s = reflect.Append(s, v)
			}
			return s, true
		}},
		{"emptyslice", func(t reflect.Type, vs []reflect.Value) (reflect.Value, bool) {
			return reflect.MakeSlice(reflect.SliceOf(t), 0, 0), true
		}},
		{"array2", func(t reflect.Type, vs []reflect.Value) (reflect.Value, bool) {
			a := reflect.New(reflect.ArrayOf(2, t)).Elem()
			a.Index(0).Set(vs[0])
			a.Index(1).Set(vs[len(vs)-1])
			return a, true
		}},
		{"mapstr", func(t reflect.Type, vs []reflect.Value) (reflect.Value, bool) {
			m := reflect.MakeMap(reflect.MapOf(strT, t))
			for i, v := range vs {
				m.SetMapIndex(reflect.ValueOf(fmt.Sprintf("k%d", i)), v)
			}
			return m, true
		}},
		{"mapint", func(t reflect.Type, vs []reflect.Value) (reflect.Value, bool) {
			m := reflect.MakeMap(reflect.MapOf(intT, t))
			for i, v := range vs {
				m.SetMapIndex(reflect.ValueOf(i*1000-1), v)
			}
			return m, true
		}},
		{"struct", func(t reflect.Type, vs []reflect.Value) (reflect.Value, bool) {
			st := reflect.StructOf([]reflect.StructField{{Name: "Fa", Type: t}, {Name: "Gb", Type: intT}, {Name: "Hc", Type: t}})
			s := reflect.New(st).Elem()
			s.Field(0).Set(vs[0])
			s.Field(1).SetInt(42)
			s.Field(2).Set(vs[len(vs)-1])
			return s, true
		}},
		{"iface", func(t reflect.Type, vs []reflect.Value) (reflect.Value, bool) {
			// []interface{} holding the values (dynamic types preserved on the marshal side only)
			s := reflect.MakeSlice(reflect.TypeOf([]interface{}{}), 0, len(vs))
			for _, v := range vs {
				s = reflect.Append(s, v)
			}
			return s, true
		}},
	}
}

// GoValues enumerates the marshal corpus: every leaf value alone, every constructor applied to every leaf kind
// (level>=1), and every pair of constructors applied to a leaf kind (level>=2: all kinds; level 1: a rotating subset).
func GoValues(level int) []GV {
	var out []GV
	ls := leaves(level)
	cs := ctors()
	for _, l := range ls {
		for i, v := range l.vals {
			out = append(out, GV{fmt.Sprintf("%s#%d", l.kind, i), l.kind, v})
		}
	}
	if level == 0 {
		// small corpus: one container of each constructor over a few kinds
		for li, l := range ls {
			c := cs[li%len(cs)]
			t, vs := leafVals(l)
			if v, ok := c.f(t, vs); ok {
				out = append(out, GV{c.name + "(" + l.kind + ")", c.name + "(" + l.kind + ")", v.Interface()})
			}
		}
		return out
	}
	for _, l := range ls {
		t, vs := leafVals(l)
		for _, c := range cs {
			if c.name == "iface" && l.kind == "ctime" {
				continue // a compact date/time held in interface{} is rebuilt as time.Time: representation don't-care
			}
			v1, ok := c.f(t, vs)
			if !ok {
				continue
			}
			cls := c.name + "(" + l.kind + ")"
			out = append(out, GV{cls, cls, v1.Interface()})
			if c.name == "iface" || c.name == "emptyslice" {
				continue
			}
			for ci, c2 := range cs {
				if level < 2 && (ci+len(l.kind))%3 != 0 {
					continue
				}
				if c2.name == "iface" {
					continue
				}
				// second level over one or two values of the first-level type
				vs2 := []reflect.Value{v1}
				if alt, ok := c.f(t, vs[:1]); ok {
					vs2 = append(vs2, alt)
				}
				v2, ok := c2.f(v1.Type(), vs2)
				if !ok {
					continue
				}
				cls2 := c2.name + "(" + cls + ")"
				out = append(out, GV{cls2, cls2, v2.Interface()})
			}
		}
	}
	out = append(out, ExtraValues()...)
	return out
}

func leafVals(l leaf) (reflect.Type, []reflect.Value) {
	// static type of the leaf: the type of its first non-nil value; "iface" leaves have static type interface{}
	if l.kind == "iface" {
		t := reflect.TypeOf((*interface{})(nil)).Elem()
		var vs []reflect.Value
		for _, x := range l.vals {
			v := reflect.New(t).Elem()
			if x != nil {
				v.Set(reflect.ValueOf(x))
			}
			vs = append(vs, v)
		}
		return t, vs
	}
	var t reflect.Type
	for _, x := range l.vals {
		if x != nil {
			t = reflect.TypeOf(x)
			break
		}
	}
	var vs []reflect.Value
	for _, x := range l.vals {
		if x == nil {
			vs = append(vs, reflect.Zero(t))
		} else if reflect.TypeOf(x) == t {
			vs = append(vs, reflect.ValueOf(x))
		}
	}
	if len(vs) > 3 {
		vs = vs[:3]
	}
	return t, vs
}

// BigPointerValues: pointer-held big numbers of every sign and magnitude window, in every holder position (C18).
func BigPointerValues() []GV {
	var out []GV
	type holderS struct {
		A int
		P *big.Int
	}
	addInt := func(name string, mk func() *big.Int) {
		out = append(out, GV{"pbig:top:" + name, "pbigint-top", mk()})
		out = append(out, GV{"pbig:struct:" + name, "pbigint-in-struct", &holderS{1, mk()}})
		out = append(out, GV{"pbig:slice:" + name, "pbigint-in-slice", []*big.Int{mk(), mk()}})
		out = append(out, GV{"pbig:map:" + name, "pbigint-in-map", map[string]*big.Int{"k": mk()}})
		out = append(out, GV{"pbig:iface:" + name, "pbigint-in-interface", []interface{}{mk()}})
		p := mk()
		out = append(out, GV{"pbig:shared:" + name, "pbigint-shared", []*big.Int{p, p}})
	}
	for k := uint(0); k <= 130; k++ {
		for _, d := range []int64{-1, 0, 1} {
			for _, neg := range []bool{false, true} {
				k, d, neg := k, d, neg
				addInt(fmt.Sprintf("%v2^%d%+d", map[bool]string{false: "+", true: "-"}[neg], k, d), func() *big.Int {
					v := new(big.Int).Lsh(big.NewInt(1), k)
					v.Add(v, big.NewInt(d))
					if neg {
						v.Neg(v)
					}
					return v
				})
			}
		}
	}
	for _, s := range []string{"1.5", "-1.5", "0.1", "-1e40", "1e-40", "0", "12345678901234567890.125"} {
		for _, prec := range []uint{24, 53, 64, 200} {
			f := bigF(s, prec)
			out = append(out, GV{fmt.Sprintf("pbigf:%s/%d", s, prec), "pbigfloat", f})
			out = append(out, GV{fmt.Sprintf("pbigf:slice:%s/%d", s, prec), "pbigfloat-in-slice", []*big.Float{bigF(s, prec)}})
		}
	}
	out = append(out, GV{"pbigf:inf", "pbigfloat", new(big.Float).SetInf(true)})
	for _, s := range []string{"1.5", "-1.5", "-0", "0", "1E+400", "-1E-400", "1234567890123456789012345678901234567890", "NaN", "sNaN", "Infinity", "-Infinity", "1.50", "-9223372036854775808", "18446744073709551615"} {
		out = append(out, GV{"pdec:" + s, "pdecimal", apdD(s)})
		out = append(out, GV{"pdec:slice:" + s, "pdecimal-in-slice", []*apd.Decimal{apdD(s)}})
	}
	return out
}
