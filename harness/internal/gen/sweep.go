package gen

import (
	"github.com/kstenerud/go-concise-encoding/ce/events"
	"github.com/kstenerud/go-concise-encoding/configuration"
	"github.com/kstenerud/go-concise-encoding/rules"
	"verif/harness/internal/ev"
)

// StructAlphabet: structural alphabet of the document sweep (C10 ∪ C13 alphabets, one small value per slot).
func StructAlphabet() []ev.E {
	return []ev.E{
		ev.EList(), ev.EMap(), ev.EEnd(), ev.EEdge(), ev.ENode(),
		ev.ENull(), ev.ETrue(), ev.EPInt(1), ev.ENInt(2), ev.EFloat(1.5), ev.EStr("a"), ev.EStr("b"),
		ev.ESArr(events.ArrayTypeResourceID, "r"), ev.EArr(events.ArrayTypeUint8, 2, []byte{1, 2}),
		ev.ERecType("x"), ev.ERec("x"), ev.EMarker("a"), ev.ERef("a"),
		ev.EMedia("a/b", []byte{1}), ev.ECustomBin(1, []byte{1}),
		ev.EED(),
	}
}

// DocSweep enumerates, without state merging, every event sequence over alphabet of length <= depth (after BD V0)
// that the REAL validator accepts as a complete document. take() is consulted at level splitLevel to shard.
// extra events (e.g. padding, comments) can be injected by the caller on the returned documents.
func DocSweep(alphabet []ev.E, depth int, splitLevel int, take func() bool, visit func(doc []ev.E), nodes *int64) {
	header := []ev.E{ev.EBD(), ev.EV(0)}
	var path []ev.E
	replay := func() *rules.RulesEventReceiver {
		r := rules.NewRules(nil, configuration.New())
		for _, e := range header {
			ev.Drive(r, e)
		}
		for _, e := range path {
			ev.Drive(r, e)
		}
		return r
	}
	var rec func(level int)
	rec = func(level int) {
		if level == splitLevel && !take() {
			return
		}
		for _, e := range alphabet {
			r := replay()
			*nodes++
			if err := ev.TryDrive(r, e); err != nil {
				continue
			}
			path = append(path, e)
			if e.K == ev.ED {
				doc := append(append([]ev.E{}, header...), path...)
				visit(doc)
			} else if level+1 < depth {
				rec(level + 1)
			}
			path = path[:len(path)-1]
		}
	}
	rec(0)
}
