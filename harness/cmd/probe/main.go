package main

import (
	"encoding/hex"
	"fmt"
	"os"

	"verif/harness/internal/codec"
	"verif/harness/internal/ev"
)

// probe: decode a hex CBE document or a CTE text and print the events (debug helper)
func main() {
	if len(os.Args) < 3 {
		fmt.Println("usage: probe cbe <hex> | cte <text>")
		return
	}
	var doc []byte
	f := codec.CBE
	if os.Args[1] == "cte" {
		f = codec.CTE
		doc = []byte(os.Args[2])
	} else {
		doc, _ = hex.DecodeString(os.Args[2])
	}
	es, err := codec.Decode(f, doc, nil, true)
	fmt.Println(ev.Join(es), "err=", err)
	for _, g := range []codec.Format{codec.CBE, codec.CTE} {
		b, stage, err := codec.Encode(g, es, nil, false)
		fmt.Printf("%s: %q %x stage=%s err=%v\n", g, b, b, stage, err)
	}
}
