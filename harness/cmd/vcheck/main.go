// vcheck: one binary for all property checks.
//
//	vcheck run <ID> <quick|thorough>      supervisor: shards the check over worker processes, writes evidence
//	vcheck worker <ID> <tier> <seed> <shard> <n> <outfile> [--trace] [--only k]
//	vcheck replay <file>                  re-executes the witness stored in a replay file, without any explorer
//	vcheck list
package main

import (
	"encoding/json"
	"fmt"
	"os"
	"sort"
	"strconv"
	"strings"
	"time"

	"verif/harness/internal/checks"
	"verif/harness/internal/fx"
)

func main() {
	if len(os.Args) < 2 {
		usage()
	}
	reg := checks.Registry()
	switch os.Args[1] {
	case "list":
		ids := []string{}
		for id := range reg {
			ids = append(ids, id)
		}
		sort.Strings(ids)
		for _, id := range ids {
			fmt.Println(id, reg[id].Level)
		}
	case "run":
		if len(os.Args) < 4 {
			usage()
		}
		chk := reg[os.Args[2]]
		if chk == nil {
			fmt.Fprintln(os.Stderr, "unknown check", os.Args[2])
			os.Exit(2)
		}
		self, _ := os.Executable()
		os.Exit(fx.Supervise(self, chk, os.Args[3]))
	case "worker":
		if len(os.Args) < 8 {
			usage()
		}
		chk := reg[os.Args[2]]
		if chk == nil {
			os.Exit(2)
		}
		seed, _ := strconv.ParseInt(os.Args[4], 10, 64)
		shard, _ := strconv.Atoi(os.Args[5])
		n, _ := strconv.Atoi(os.Args[6])
		trace := false
		only := int64(-1)
		for i := 8; i < len(os.Args); i++ {
			switch os.Args[i] {
			case "--trace":
				trace = true
			case "--only":
				i++
				only, _ = strconv.ParseInt(os.Args[i], 10, 64)
			}
		}
		var budget time.Duration
		if v := os.Getenv("VERIF_BUDGET_S"); v != "" {
			s, _ := strconv.Atoi(v)
			budget = time.Duration(s) * time.Second
		}
		fx.RunWorker(chk, os.Args[3], seed, shard, n, os.Args[7], trace, only, budget)
	case "replay":
		if len(os.Args) < 3 {
			usage()
		}
		b, err := os.ReadFile(os.Args[2])
		if err != nil {
			fmt.Fprintln(os.Stderr, err)
			os.Exit(2)
		}
		var rf struct {
			Property  string          `json:"property"`
			Signature string          `json:"signature"`
			Witness   json.RawMessage `json:"witness"`
		}
		if err := json.Unmarshal(b, &rf); err != nil {
			fmt.Fprintln(os.Stderr, err)
			os.Exit(2)
		}
		chk := reg[rf.Property]
		if chk == nil || chk.Replay == nil {
			fmt.Fprintln(os.Stderr, "no replay function for", rf.Property)
			os.Exit(2)
		}
		msg := chk.Replay(rf.Witness)
		if strings.HasPrefix(msg, "NOT-REPLAYABLE:") {
			fmt.Fprintln(os.Stderr, msg)
			os.Exit(2)
		}
		if msg == "" {
			fmt.Printf("replay of %s passes (no violation)\n", os.Args[2])
			return
		}
		fmt.Printf("VIOLATION property=%s replay=%s\n  %s\n", rf.Property, os.Args[2], msg)
		os.Exit(1)
	default:
		usage()
	}
}

func usage() {
	fmt.Fprintln(os.Stderr, "usage: vcheck run <ID> <quick|thorough> | replay <file> | list")
	os.Exit(2)
}
