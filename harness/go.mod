module verif/harness

go 1.21

require (
	github.com/cockroachdb/apd/v2 v2.0.2
	github.com/kstenerud/go-compact-float v1.6.1
	github.com/kstenerud/go-compact-time v1.8.3
	github.com/kstenerud/go-concise-encoding v0.0.0
)

require (
	github.com/antlr/antlr4/runtime/Go/antlr/v4 v4.0.0-20221202181307-76fa05c21b12 // indirect
	github.com/kstenerud/go-describe v1.2.15 // indirect
	github.com/kstenerud/go-duplicates v1.1.1 // indirect
	github.com/kstenerud/go-uleb128 v1.1.0 // indirect
	github.com/pkg/errors v0.8.0 // indirect
	golang.org/x/exp v0.0.0-20220722155223-a9213eeb770e // indirect
)

replace github.com/kstenerud/go-concise-encoding => /repo
