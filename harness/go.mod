module verif/harness

go 1.21

require (
	github.com/cockroachdb/apd/v2 v2.0.2
	github.com/kstenerud/go-compact-float v1.6.1
	github.com/kstenerud/go-compact-time v1.8.3
	github.com/kstenerud/go-concise-encoding v0.0.0
)

require (
	github.com/kstenerud/go-uleb128 v1.1.0 // indirect
	github.com/pkg/errors v0.8.0 // indirect
)

replace github.com/kstenerud/go-concise-encoding => /repo
