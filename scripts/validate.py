#!/usr/bin/env python3-vt
import json,jsonschema,glob,sys
jsonschema.validate(json.load(open('/verif/MANIFEST.json')), json.load(open('/root/.vp/MANIFEST.schema.json')))
es=json.load(open('/root/.vp/EVIDENCE.schema.json'))
bad=0
for f in sorted(glob.glob('/verif/evidence/*.json')):
    try:
        jsonschema.validate(json.load(open(f)), es)
    except Exception as e:
        bad+=1; print('INVALID',f,str(e)[:300])
print('manifest ok; evidence files checked:',len(glob.glob('/verif/evidence/*.json')),'invalid:',bad)
sys.exit(1 if bad else 0)
