#!/bin/sh
# usage: run_all.sh <quick|thorough> [ids...]   runs the checks one after another and prints one summary line each
tier=${1:-quick}; shift
here="$(cd "$(dirname "$0")" && pwd)"
ids="$@"
[ -z "$ids" ] && ids=$(python3 -c "import json;print(' '.join(c['property_id'] for c in json.load(open('$here/../MANIFEST.json'))['checks']))")
for id in $ids; do
  s=$(date +%s)
  out=$(sh "$here/check.sh" $id $tier 2>&1); rc=$?
  e=$(date +%s)
  echo "$id rc=$rc $((e-s))s $(echo "$out" | grep "^\[$id" | cut -c1-200)"
  echo "$out" | grep -A2 "^VIOLATION" | head -12 | cut -c1-300
  echo "$out" | grep -i "guard failed\|infrastructure" | head -3
done
