#!/bin/sh
# usage: seed_regress.sh [name-glob]   re-runs every kept seeded change against the quick tier of the check(s) named in
# its meta.json (caught_by): applies the patch to /repo, runs, reverts. Prints one line per change and a summary.
here="$(cd "$(dirname "$0")" && pwd)"
root="$(dirname "$here")"
pat="${1:-C*}"
ok=0; miss=0; skip=0
for d in "$root"/seeded/$pat/; do
  n=$(basename "$d")
  [ -f "$d/meta.json" ] && [ -f "$d/patch.diff" ] || continue
  ids=$(python3 -c "import json;print(' '.join(json.load(open('$d/meta.json')).get('caught_by') or []))")
  [ -z "$ids" ] && { echo "$n SKIP (no caught_by)"; skip=$((skip+1)); continue; }
  if ! git -C /repo apply --check "$d/patch.diff" 2>/dev/null; then echo "$n SKIP (patch does not apply to the current tree)"; skip=$((skip+1)); continue; fi
  first=$(echo $ids | awk '{print $1}')
  out=$(sh "$here/seed_run.sh" "$d/patch.diff" quick $first 2>&1 | grep "^== ")
  case "$out" in
    *"rc=1"*) echo "$n caught by $first ($out)"; ok=$((ok+1));;
    *) echo "$n MISSED by $first ($out)"; miss=$((miss+1));;
  esac
done
echo "SUMMARY caught=$ok missed=$miss skipped=$skip"
[ -z "$(git -C /repo status --short)" ] || echo "WARNING: /repo is not clean"
