#!/bin/sh
# usage: with_patch.sh <patch.diff> <command...>   applies the patch to /repo, runs the command, always reverts.
p="$1"; shift
git -C /repo apply "$p" || { echo "patch does not apply" >&2; exit 3; }
"$@"; rc=$?
git -C /repo checkout -- . ; git -C /repo clean -fdq
exit $rc
