#!/usr/bin/env python3
# usage: madd.py < json   where json = {"check": {...}} and/or {"engine": {...}}; updates manifest_checks.json and regenerates MANIFEST.json
import json,sys,subprocess
d=json.load(open('/verif/scripts/manifest_checks.json'))
x=json.load(sys.stdin)
for c in x.get("checks",[]) + ([x["check"]] if "check" in x else []):
    d["checks"]=[k for k in d["checks"] if k["property_id"]!=c["property_id"]]+[c]
    d["checks"].sort(key=lambda k:k["property_id"])
for e in x.get("engines",[]) + ([x["engine"]] if "engine" in x else []):
    d["engines"]=[k for k in d["engines"] if k["name"]!=e["name"]]+[e]
for e in d["engines"]:
    e["serves_properties"]=sorted({c["property_id"] for c in d["checks"] if c["engine"]==e["name"]}|set(e.get("serves_properties",[])))
json.dump(d,open('/verif/scripts/manifest_checks.json','w'),indent=1,ensure_ascii=False)
subprocess.check_call(['python3','/verif/scripts/gen_manifest.py'])
