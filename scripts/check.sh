#!/bin/sh
# usage: check.sh <property id> <quick|thorough>
. "$(dirname "$0")/env.sh"
id="$1"; tier="${2:-${VERIF_TIER:-quick}}"
if ! out=$("$VERIF_ROOT/scripts/build.sh" 2>&1); then
  echo "$out" >&2
  echo "build failed" >&2
  exit 2
fi
exec $VERIF_ROOT/bin/vcheck run "$id" "$tier"
