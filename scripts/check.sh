#!/bin/sh
# usage: check.sh <property id> <quick|thorough>
. /verif/scripts/env.sh
id="$1"; tier="${2:-${VERIF_TIER:-quick}}"
if ! out=$(/verif/scripts/build.sh 2>&1); then
  echo "$out" >&2
  echo "build failed" >&2
  exit 2
fi
exec /verif/bin/vcheck run "$id" "$tier"
