#!/bin/sh
here="$(cd "$(dirname "$0")" && pwd)"
# usage: seed_run.sh <patch.diff> <tier> <check id>...   applies the patch to /repo, runs the checks, always reverts.
p="$1"; tier="$2"; shift; shift
git -C /repo apply "$p" || { echo "patch does not apply" >&2; exit 3; }
trap 'git -C /repo checkout -- . ; git -C /repo clean -fdq' EXIT INT TERM
for id in "$@"; do
  out=$(sh $here/check.sh $id $tier 2>&1); rc=$?
  nv=$(echo "$out" | grep -c "^VIOLATION")
  echo "== $id rc=$rc violations=$nv"
  echo "$out" | grep -A2 "^VIOLATION" | head -9 | cut -c1-260
  echo "$out" | grep "^\[$id" | cut -c1-200
done
