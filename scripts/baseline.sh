#!/bin/sh
# Runs the repository's pinned test suite (guard off: there are no source hooks) and compares with BASELINE.json's stable_pass list.
. /verif/scripts/env.sh
export GOCACHE=/verif/.gocache
out=/verif/.work/baseline.$$.json
mkdir -p /verif/.work
( cd /repo && go test -mod=mod -json -vet=off -count=1 -timeout 25m ./... ; cd /repo/codegen && go test -mod=mod -json -vet=off -count=1 -timeout 25m ./... ) > $out 2>/dev/null
python3 - "$out" <<'PY'
import json,sys
want=set(json.load(open('/root/.vp/BASELINE.json'))['stable_pass'])
st={}
for l in open(sys.argv[1]):
    try: e=json.loads(l)
    except: continue
    if e.get('Test') and e.get('Action') in('pass','fail','skip'):
        st[e['Package']+'::'+e['Test']]=e['Action']
missing=[t for t in want if st.get(t)!='pass']
print("baseline tests:",len(want),"passing now:",len(want)-len(missing))
for t in missing[:20]: print("  NOT PASSING:",t,st.get(t))
sys.exit(1 if missing else 0)
PY
rc=$?
rm -f $out
exit $rc
