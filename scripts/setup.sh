#!/bin/sh
# one-time setup after a fresh restore: build the harness from files on disk only (offline)
set -e
. /verif/scripts/env.sh
mkdir -p /verif/.gocache /verif/.work /verif/bin /verif/evidence /verif/replays
sh /verif/scripts/build.sh
echo setup ok
