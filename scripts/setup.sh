#!/bin/sh
# one-time setup after a fresh restore: build the harness from files on disk only (offline)
set -e
. "$(dirname "$0")/env.sh"
mkdir -p /verif/.gocache $VERIF_ROOT/.work $VERIF_ROOT/bin $VERIF_ROOT/evidence $VERIF_ROOT/replays
sh "$VERIF_ROOT/scripts/build.sh"
echo setup ok
