#!/usr/bin/env python3
# Generates MANIFEST.json from the table below (kept in one place so it stays valid and in sync).
import json, sys
checks = json.load(open('/verif/scripts/manifest_checks.json'))
props = [json.loads(l)['id'] for l in open('/verif/properties.jsonl')]
m = {
 "version": 1,
 "setup_cmd": "sh /verif/scripts/setup.sh",
 "hooks": {
  "guard": "verif-overlay",
  "enable": "no source hooks: instrumentation is injected at build time with `go build -overlay` generated from /repo's current files (scripts/build.sh rewrites the \"sync\" import of iterator/session.go and builder/session.go to the vsync shim in /verif/overlay for the vcheck-sched binary); private state is read by reflection; vcheck-race is a plain -race build, vcheck-purego a -tags purego build",
  "baseline_off_cmd": "cd /repo && go test -mod=mod -json -vet=off -count=1 -timeout 25m ./... && cd /repo/codegen && go test -mod=mod -json -vet=off -count=1 -timeout 25m ./...",
  "source_commits": [],
  "add_only": True
 },
 "engines": checks["engines"],
 "checks": [],
 "notes": checks.get("notes",""),
 "not_applicable": []
}
claimed=set()
for c in checks["checks"]:
    pid=c["property_id"]; claimed.add(pid)
    m["checks"].append({
      "property_id": pid,
      "quick_cmd": f"sh /verif/scripts/check.sh {pid} quick",
      "thorough_cmd": f"sh /verif/scripts/check.sh {pid} thorough",
      "evidence_file": f"/verif/evidence/{pid}.json",
      "replay_cmd_template": ("/verif/bin/vcheck-sched replay {path}" if pid=="C17" else "/verif/bin/vcheck replay {path}"),
      "engine": c["engine"],
      "level_claimed": {"category": c["category"], "text": c["text"], "design_ref": c.get("design_ref","DESIGN.md §3 "+pid)},
      "level_note": c["level_note"],
      "technique": c["technique"],
    })
na = checks.get("not_applicable",{})
for p in props:
    if p not in claimed:
        m["not_applicable"].append({"property_id": p, "reason": na.get(p, "check not built yet in this session (work in progress; see DESIGN.md §3 for the planned bounded-exhaustive check)")})
json.dump(m, open('/verif/MANIFEST.json','w'), indent=1)
print("claimed", len(claimed), "not_applicable", len(m["not_applicable"]))
