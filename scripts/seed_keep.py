#!/usr/bin/env python3
# usage: seed_keep.py <ID> <mk> <caught_by comma list or NONE> <needs text>
import sys,os,shutil,json,glob,subprocess
pid,mk,caught,needs=sys.argv[1:5]
base=os.environ.get('SEEDBASE','/tmp/seed')
src=f'{base}/{pid}/out/{mk}'
dst=f'/verif/seeded/{pid}-'+('r2' if 'seed2' in base else 'r3' if 'seed3' in base else '')+mk
os.makedirs(dst,exist_ok=True)
for f in glob.glob(src+'/*'):
    if os.path.isfile(f) and not f.endswith('.log'): shutil.copy(f,dst)
pkg=''
for f in glob.glob(dst+'/*_test.go'):
    for l in open(f):
        if l.startswith('package '): pkg=l.split()[1].replace('_test',''); break
head=subprocess.check_output(['git','-C','/repo','rev-parse','--short','HEAD']).decode().strip()
meta={"property":pid,"breaks":pid,"needs_to_manifest":needs,
 "demo":{"files":[os.path.basename(f) for f in glob.glob(dst+'/*_test.go')],"copy_into_package_dir":pkg,"run":f"go test -mod=mod -vet=off -count=1 ./{pkg}/"},
 "confirmed":{"how":"scripts/seed_verify.sh in a scratch worktree of /repo at "+head+": (a) full baseline suite passes with the patch, (b) demo fails with the patch, (c) demo passes without it","result":"a=ok b=fails c=passes"},
 "checks_run":"scripts/seed_run.sh <patch> quick <ids> (git -C /repo apply; check.sh; git checkout)",
 "caught_by":[] if caught=='NONE' else caught.split(','),
 "origin":"independent sub-agent given only the property text and a scratch worktree"}
json.dump(meta,open(dst+'/meta.json','w'),indent=1)
print(dst)
