# sourced by every script: offline Go environment; VERIF_ROOT is the directory that holds this scripts/ directory
# (normally /verif; a snapshot made by `vp run` works the same way from its own path)
if [ -z "$VERIF_ROOT_FIXED" ]; then
  _here="$(cd "$(dirname "$0")/.." 2>/dev/null && pwd)"
  case "$_here" in */) ;; esac
  VERIF_ROOT="${_here:-/verif}"
  [ -f "$VERIF_ROOT/scripts/env.sh" ] || VERIF_ROOT=/verif
fi
export VERIF_ROOT
export GOFLAGS=-mod=mod GOPROXY=off GOSUMDB=off GOTOOLCHAIN=local
export GOCACHE=/verif/.gocache
export CARGO_NET_OFFLINE=true PIP_NO_INDEX=1
