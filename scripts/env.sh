# sourced by every script: offline Go environment
export GOFLAGS=-mod=mod GOPROXY=off GOSUMDB=off GOTOOLCHAIN=local
export GOCACHE=/verif/.gocache
export CARGO_NET_OFFLINE=true PIP_NO_INDEX=1
export VERIF_ROOT=/verif
