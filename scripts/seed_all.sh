#!/bin/sh
here="$(cd "$(dirname "$0")" && pwd)"
# usage: seed_all.sh <ID> <demo pkg dir> <tier> <check ids...>
id=$1; pkg=$2; tier=$3; shift; shift; shift
for m in ${SEEDBASE:-/tmp/seed}/$id/out/m*/; do
  echo "##### $id $(basename $m)"
  mp=$pkg
  if [ "$pkg" = auto ]; then mp=$(grep -h -m1 "^package " $m/*_test.go | head -1 | awk '{print $2}' | sed 's/_test$//'); fi
  sh $here/seed_verify.sh $m $mp | tail -1
  sh $here/seed_run.sh $m/patch.diff $tier "$@" 2>&1 | grep -E "^==|signature|message" | head -8 | cut -c1-330
done
