#!/usr/bin/env python3
# usage: kf_add.py <ID> <regex on signature> <what>   adds known findings for the NEW violations of the last run (replays/<ID>/*.json)
import sys,json,glob,re
pid,rx,what=sys.argv[1:4]
p='/verif/known-findings.json'
d=json.load(open(p)); have={(e.get('property'),e.get('signature')) for e in d['findings']}
n=0
for f in sorted(glob.glob(f'/verif/replays/{pid}/*.json')):
    r=json.load(open(f)); s=r['signature']
    if re.search(rx,s) and (pid,s) not in have:
        d['findings'].append({"property":pid,"signature":s,"what":what}); have.add((pid,s)); n+=1
json.dump(d,open(p,'w'),indent=1,ensure_ascii=False); print('added',n)
