#!/bin/sh
# (re)builds the harness binaries from /repo's current working tree (harness module replaces the repo module with /repo)
set -e
. /verif/scripts/env.sh
cd /verif/harness
mkdir -p /verif/bin
go build -o /verif/bin/vcheck ./cmd/vcheck
go build -tags purego -o /verif/bin/vcheck-purego ./cmd/vcheck
