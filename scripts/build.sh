#!/bin/sh
# (re)builds the harness binaries from /repo's current working tree (harness module replaces the repo module with /repo)
set -e
. "$(dirname "$0")/env.sh"
cd $VERIF_ROOT/harness
mkdir -p $VERIF_ROOT/bin $VERIF_ROOT/.work/overlay
go build -o $VERIF_ROOT/bin/vcheck ./cmd/vcheck
go build -tags purego -o $VERIF_ROOT/bin/vcheck-purego ./cmd/vcheck
# scheduler build: "sync" in the two session files is replaced by the vsync shim (overlay generated from the CURRENT repo files)
ov=$VERIF_ROOT/.work/overlay
for f in iterator/session.go builder/session.go; do
  out=$ov/$(echo $f | tr / _)
  sed 's#^\t"sync"$#\tsync "github.com/kstenerud/go-concise-encoding/vsync"#' /repo/$f > $out.tmp
  grep -q 'go-concise-encoding/vsync' $out.tmp || { echo "overlay: could not rewrite the sync import of $f" >&2; exit 1; }
  cmp -s $out.tmp $out 2>/dev/null || mv $out.tmp $out
  rm -f $out.tmp
done
cat > $ov/overlay.json.tmp <<JSON
{"Replace": {"/repo/iterator/session.go": "$ov/iterator_session.go", "/repo/builder/session.go": "$ov/builder_session.go", "/repo/vsync/vsync.go": "$VERIF_ROOT/overlay/vsync/vsync.go"}}
JSON
cmp -s $ov/overlay.json.tmp $ov/overlay.json 2>/dev/null || mv $ov/overlay.json.tmp $ov/overlay.json
rm -f $ov/overlay.json.tmp
go build -tags sched -overlay $ov/overlay.json -o $VERIF_ROOT/bin/vcheck-sched ./cmd/vcheck
go build -race -o $VERIF_ROOT/bin/vcheck-race ./cmd/vcheck
