#!/bin/sh
here="$(cd "$(dirname "$0")" && pwd)"
# usage: seed_verify.sh <mutant dir with patch.diff + demo *_test.go> <package dir for the demo, e.g. rules>
# Confirms in a scratch worktree of /repo HEAD: (a) suite passes with mutant, (b) demo fails with mutant, (c) demo passes without.
. $here/env.sh
src="$1"; pkg="$2"
wt=/tmp/vw-$$
git -C /repo worktree add --detach $wt HEAD >/dev/null 2>&1 || exit 3
trap 'git -C /repo worktree remove --force $wt >/dev/null 2>&1; rm -rf $wt' EXIT
cd $wt
git apply "$src/patch.diff" || { echo "RESULT patch-does-not-apply"; exit 3; }
a=FAIL; b=?; c=?
if (go build ./... && go test -mod=mod -vet=off -count=1 ./... && cd codegen && go test -mod=mod -vet=off -count=1 ./...) >/tmp/vw-$$.log 2>&1; then a=ok; else tail -5 /tmp/vw-$$.log; fi
cp "$src"/*_test.go $wt/$pkg/ 2>/dev/null
demos=$(cd "$src" && ls *_test.go | sed 's/\.go$//' | tr '\n' ' ')
if go test -mod=mod -vet=off -count=1 ./$pkg/ >/tmp/vw-$$.log 2>&1; then b="PASSES(bad)"; else b="fails(good)"; grep -m3 -E "^\s+\S+_test.go|FAIL|panic" /tmp/vw-$$.log | cut -c1-200; fi
git apply -R "$src/patch.diff"
if go test -mod=mod -vet=off -count=1 ./$pkg/ >/tmp/vw-$$.log 2>&1; then c="passes(good)"; else c="FAILS(bad)"; tail -5 /tmp/vw-$$.log | cut -c1-200; fi
rm -f /tmp/vw-$$.log
echo "RESULT suite-with-mutant=$a demo-with-mutant=$b demo-without=$c"
