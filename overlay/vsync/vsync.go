// Package vsync is the synchronisation shim injected by `go build -overlay` in place of "sync" in
// iterator/session.go and builder/session.go (verification builds only; it is not part of the repository).
// With no scheduler installed it behaves exactly like sync.Map / sync.WaitGroup.
package vsync

import "sync"

// Scheduler is implemented by the harness: Point is called BEFORE every hooked operation and may park the calling
// thread; Block parks the thread until cond() holds.
type Scheduler interface {
	Point(op string, obj interface{})
	Block(op string, obj interface{}, cond func() bool)
}

// Sched is set by the harness before an exploration and reset to nil afterwards.
var Sched Scheduler

type Map struct{ m sync.Map }

func (m *Map) Load(key interface{}) (interface{}, bool) {
	if s := Sched; s != nil {
		s.Point("Map.Load", m)
	}
	return m.m.Load(key)
}

func (m *Map) Store(key, value interface{}) {
	if s := Sched; s != nil {
		s.Point("Map.Store", m)
	}
	m.m.Store(key, value)
}

func (m *Map) LoadOrStore(key, value interface{}) (interface{}, bool) {
	if s := Sched; s != nil {
		s.Point("Map.LoadOrStore", m)
	}
	return m.m.LoadOrStore(key, value)
}

func (m *Map) Delete(key interface{}) {
	if s := Sched; s != nil {
		s.Point("Map.Delete", m)
	}
	m.m.Delete(key)
}

func (m *Map) Range(f func(key, value interface{}) bool) {
	if s := Sched; s != nil {
		s.Point("Map.Range", m)
	}
	m.m.Range(f)
}

type WaitGroup struct {
	mu sync.Mutex
	n  int
	wg sync.WaitGroup
}

func (w *WaitGroup) Add(delta int) {
	if s := Sched; s != nil {
		s.Point("WaitGroup.Add", w)
	}
	w.mu.Lock()
	w.n += delta
	w.mu.Unlock()
	w.wg.Add(delta)
}

func (w *WaitGroup) Done() {
	if s := Sched; s != nil {
		s.Point("WaitGroup.Done", w)
	}
	w.mu.Lock()
	w.n--
	w.mu.Unlock()
	w.wg.Done()
}

func (w *WaitGroup) Wait() {
	if s := Sched; s != nil {
		s.Block("WaitGroup.Wait", w, func() bool {
			w.mu.Lock()
			defer w.mu.Unlock()
			return w.n == 0
		})
		return
	}
	w.wg.Wait()
}
